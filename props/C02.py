from bounded import dispatcher


def _run(tier, seed):
    return dispatcher.run(tier, seed, pid='C02')


EXTRA_CHECKS = [_run]
