from bounded import dispatcher


def _run(tier, seed):
    return dispatcher.run(tier, seed, pid='C04')


EXTRA_CHECKS = [_run]
