from bounded import jsonlib_conformance
from bounded import dispatcher


def _run(tier, seed):
    return dispatcher.run(tier, seed, pid='C03')


EXTRA_CHECKS = [_run]
EXTRA_CHECKS = list(EXTRA_CHECKS) + [jsonlib_conformance.run]
