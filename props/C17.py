from bounded import c17_framing
EXTRA_CHECKS = [c17_framing.run]
