from bounded import pool_schedules
EXTRA_CHECKS = [pool_schedules.run]
