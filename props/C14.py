from bounded import c14_messages
EXTRA_CHECKS = [c14_messages.run]
