from bounded import jsonlib_conformance
from bounded import c14_messages
EXTRA_CHECKS = [c14_messages.run]
EXTRA_CHECKS = list(EXTRA_CHECKS) + [jsonlib_conformance.run]
