from bounded import jsonclass_shapes


def _run(tier, seed):
    return jsonclass_shapes.run(tier, seed, pid='C15')


EXTRA_CHECKS = [_run]
