from bounded import c19_faults
EXTRA_CHECKS = [c19_faults.run]
