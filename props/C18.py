from bounded import c18_recency
EXTRA_CHECKS = [c18_recency.run]
