from bounded import c12_lifecycle
EXTRA_CHECKS = [c12_lifecycle.run]
