from bounded import pool_schedules
from bounded import c12_lifecycle
EXTRA_CHECKS = [c12_lifecycle.run]
EXTRA_CHECKS = list(EXTRA_CHECKS) + [pool_schedules.run]
