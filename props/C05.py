from bounded import dispatcher


def _run(tier, seed):
    return dispatcher.run(tier, seed, pid='C05')


EXTRA_CHECKS = [_run]
