from bounded import jsonclass_shapes


def _run(tier, seed):
    return jsonclass_shapes.run(tier, seed, pid='C08')


EXTRA_CHECKS = [_run]
