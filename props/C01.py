from bounded import jsonlib_conformance
from bounded import c01_endtoend
EXTRA_CHECKS = [c01_endtoend.run]
EXTRA_CHECKS = list(EXTRA_CHECKS) + [jsonlib_conformance.run]
