from bounded import c01_endtoend
EXTRA_CHECKS = [c01_endtoend.run]
