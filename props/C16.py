from bounded import c16_interleavings
EXTRA_CHECKS = [c16_interleavings.run]
