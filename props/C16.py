from bounded import c16_schedules
EXTRA_CHECKS = [c16_schedules.run]
