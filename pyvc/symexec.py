"""Symbolic executor over the accepted Python subset (DESIGN 2.2-2.7).

Executes a real function body (ast taken from /repo by pyvc.extract) path by path.  Exceptions are
forked at every raising operation according to pyvc.ops; calls to repository functions are replaced
by their contracts; calls to anything else go through pyvc.trusted; loops are cut at invariants.
"""
import ast
import z3

from . import vals as V
from .vals import Val
from . import ops
from .ops import Unsupported
from . import classes as C
from .trusted import View, RangeV, LazySeq, KeysTuple, TypeSet

ALLOC0 = z3.Int("alloc0")          # references below alloc0 existed before the call
FEAS_TIMEOUT_MS = 1200


class Meta(object):
    """A Python-level value known at verification time (module, class, function, type tuple,
    constant).  Obtained from the real imported modules."""
    __slots__ = ("py",)

    def __init__(self, py):
        self.py = py

    def __repr__(self):
        return "Meta(%r)" % (self.py,)


class BoundMeth(object):
    __slots__ = ("recv", "name", "cls")

    def __init__(self, recv, name, cls=None):
        self.recv, self.name, self.cls = recv, name, cls


class Star(object):
    __slots__ = ("val",)

    def __init__(self, val):
        self.val = val


class DStar(Star):
    pass


class SliceV(object):
    __slots__ = ("lo", "hi")

    def __init__(self, lo, hi):
        self.lo, self.hi = lo, hi


NORMAL, RETURN, RAISE, BREAK, CONTINUE = "normal", "return", "raise", "break", "continue"


class Hyps(list):
    """path condition plus `hard` facts (regular expressions, substring tests) that are only handed to the solver
    when the goal itself talks about strings"""
    hard = ()


class Obligation(object):
    def __init__(self, name, hyps, goal, sig, kind, clause, props=(), extra=None):
        self.name, self.goal, self.sig = name, goal, list(sig)
        self.hyps = Hyps(hyps)
        self.hyps.hard = list(getattr(hyps, "hard", ()))
        self.kind, self.clause, self.props = kind, clause, tuple(props)
        self.extra = extra or {}


class State(object):
    def __init__(self):
        self.locals = {}
        self.heap = {}
        self.heap0 = {}            # initial arrays, for old() and frames
        self.pc = []
        self.sig = []
        self.ghost = {}
        self.aptr = ALLOC0             # next free reference (z3 Int term)
        self.exc_stack = []
        self.types = {}            # z3 ast id -> python class (static knowledge about instances)
        self.obligations = []
        self.locks = []            # stack of lock objects held (monitor)
        self.derived = set()       # ids of terms read out of another container / out of a field (aliases, see alias_guard)
        # every map above that is keyed by a z3 ast id pins its term here: z3 reuses the ids of collected terms, and a
        # stale entry would then type (or mark) an unrelated new term.  Shared by all copies of the state.
        self.keep = []
        self.written_params = set()
        self.notes = []
        self.tags = {}
        self.elemtypes = {}        # z3 ast id of a list value -> python class of its elements
        self.hard = []             # facts kept out of feasibility queries (regular expressions ...), used by obligations

    def hyps(self):
        h = Hyps(self.pc)
        h.hard = list(self.hard)
        return h

    def assume_hard(self, f):
        self.hard.append(f)

    def copy(self):
        s = State.__new__(State)
        s.locals = dict(self.locals)
        s.heap = dict(self.heap)
        s.heap0 = self.heap0       # shared: lazily filled, same initial arrays on every path
        s.pc = list(self.pc)
        s.sig = list(self.sig)
        s.ghost = dict(self.ghost)
        s.aptr = self.aptr
        s.exc_stack = list(self.exc_stack)
        s.types = dict(self.types)
        s.obligations = list(self.obligations)
        s.locks = list(self.locks)
        s.written_params = set(self.written_params)
        s.notes = list(self.notes)
        s.tags = dict(self.tags)
        s.elemtypes = dict(self.elemtypes)
        s.hard = list(self.hard)
        s.derived = set(self.derived)
        s.keep = self.keep
        return s

    # --- heap -----------------------------------------------------------------------------------
    def field_arr(self, field):
        if field not in self.heap:
            if field not in self.heap0:
                sort = z3.BoolSort() if field.startswith("?") else Val
                self.heap0[field] = z3.Array("H0!" + field, z3.IntSort(), sort)
            self.heap[field] = self.heap0[field]
        return self.heap[field]

    def read(self, ref, field):
        return z3.Select(self.field_arr(field), ref)

    def write(self, ref, field, value):
        self.heap[field] = z3.Store(self.field_arr(field), ref, value)

    def alloc(self, pycls=None):
        ref = self.aptr
        self.aptr = z3.simplify(self.aptr + 1)
        if pycls is not None:
            self.pc.append(C.cls_of(ref) == z3.IntVal(C.cid(pycls)))
        v = V.VObj(ref)
        if pycls is not None:
            self.types[v.get_id()] = pycls
            self.keep.append(v)
        return v

    def assume(self, f):
        # conjunctions are kept as separate facts (feasibility queries drop some kinds of facts individually)
        if z3.is_expr(f) and z3.is_and(f):
            for c in f.children():
                self.assume(c)
        else:
            self.pc.append(f)

    def settype(self, v, pycls):
        if pycls is not None and z3.is_expr(v):
            self.types[v.get_id()] = pycls
            self.keep.append(v)
        return v

    def pin(self, v):
        if z3.is_expr(v):
            self.keep.append(v)
        return v

    def typeof(self, v):
        if not z3.is_expr(v):
            return None
        t = self.types.get(v.get_id())
        if t is None and z3.is_app(v) and v.num_args() > 0:
            # an element taken back out of a literal tuple/list (x, y = (a, b)[1:]): same term after simplification
            w = z3.simplify(v)
            if w.get_id() != v.get_id():
                t = self.types.get(w.get_id())
        return t


class Outcome(object):
    """One finished path of a function."""
    def __init__(self, st, kind, value):
        self.st, self.kind, self.value = st, kind, value     # kind: RETURN / RAISE


class Budget(Exception):
    pass


def mangle(cls_name, attr):
    if cls_name and attr.startswith("__") and not attr.endswith("__"):
        return "_%s%s" % (cls_name.lstrip("_"), attr)
    return attr


_MUTATORS = {"append", "update", "pop", "remove", "setdefault", "difference_update", "clear",
             "insert", "extend", "add", "discard", "sort", "reverse"}


class Executor(object):
    """Executes one function.  `env` supplies: module (real module), cls (real enclosing class or
    None), contracts (lookup by key), trusted (pyvc.trusted.Table), fn (FunctionText),
    contract (the function's own contract, for loop invariants and environment hooks)."""

    def __init__(self, env, max_paths=4000):
        self.env = env
        self.max_paths = max_paths
        self.npaths = 0
        self.feas_checks = 0
        self.pruned = 0
        self.base_facts = V.ground_facts() + C.name_facts()
        self.loop_ordinals = {}
        self.dead_paths = []
        import time as _t, os as _os
        self.t_start = _t.time()
        self.budget_s = int(_os.environ.get("VERIF_FN_BUDGET_S", "300"))
        self.isinst_cands = {}
        self.pinned = []
        loops_ = [n for n in ast.walk(ast.Module(body=env.fn.body, type_ignores=[])) if isinstance(n, (ast.For, ast.While))]
        for n in sorted(loops_, key=lambda n: (n.lineno, n.col_offset)):      # ordinals follow the source order
            self.loop_ordinals[id(n)] = len(self.loop_ordinals)
        self.cls_name = env.cls.__name__ if env.cls is not None else None

    # ------------------------------------------------------------------------------------------------
    # feasibility
    def _solver(self, st, guards=()):
        from . import solve
        s = z3.Solver()
        s.set("timeout", FEAS_TIMEOUT_MS)
        s.add(*solve.base_facts())
        # quantified facts are left out of feasibility queries: with them z3 answers `unknown` instead of
        # `sat`; dropping hypotheses only keeps more paths (sound), the obligations see the full context
        pc = [f for f in st.pc if not z3.is_quantifier(f) and not solve.heavy_strings(f)]
        gl = [g for g in guards if z3.is_expr(g)]
        if gl and len(pc) > 25:
            # cone of influence: only facts connected (through shared symbols) to the guards can decide them, the
            # path condition being satisfiable on its own
            syms = set()
            for g in gl:
                syms |= solve._symbols(g)
            rest = [(f, solve._symbols(f)) for f in pc]
            picked = []
            changed = True
            while changed:
                changed = False
                keep = []
                for f, fs in rest:
                    if fs & syms:
                        picked.append(f)
                        if not fs <= syms:
                            syms |= fs
                            changed = True
                    else:
                        keep.append((f, fs))
                rest = keep
            pc = picked
        s.add(*pc)
        s.add(*solve.wf_ties(pc + [g for g in guards if z3.is_expr(g)]))
        return s

    def feasible(self, st, extra=None):
        self.feas_checks += 1
        s = self._solver(st, [extra] if extra is not None else [])
        if extra is not None:
            s.add(extra)
        r = s.check()
        if r == z3.unsat:
            self.pruned += 1
            return False
        return True

    # cheap syntactic tag knowledge: avoids a solver call for most operator-table alternatives
    def learn_tags(self, st, g):
        stack = [g]
        while stack:
            t = stack.pop()
            if not z3.is_app(t):
                continue
            k = t.decl().kind()
            if k == z3.Z3_OP_AND:
                stack.extend(t.children())
            elif k == z3.Z3_OP_DT_IS:
                st.tags[st.pin(t.arg(0)).get_id()] = t.decl().params()[0].name()

    def quick_false(self, st, g):
        if not z3.is_app(g):
            return False
        k = g.decl().kind()
        if k == z3.Z3_OP_DT_IS:
            known = st.tags.get(g.arg(0).get_id())
            return known is not None and known != g.decl().params()[0].name()
        if k == z3.Z3_OP_AND:
            return any(self.quick_false(st, c) for c in g.children())
        if k == z3.Z3_OP_OR:
            return all(self.quick_false(st, c) for c in g.children())
        if k == z3.Z3_OP_NOT:
            c = g.arg(0)
            if z3.is_app(c) and c.decl().kind() == z3.Z3_OP_DT_IS:
                known = st.tags.get(c.arg(0).get_id())
                return known is not None and known == c.decl().params()[0].name()
            if z3.is_app(c) and c.decl().kind() == z3.Z3_OP_OR:
                return any(self.quick_true(st, x) for x in c.children())
        return False

    def quick_true(self, st, g):
        if z3.is_app(g) and g.decl().kind() == z3.Z3_OP_DT_IS:
            known = st.tags.get(g.arg(0).get_id())
            return known is not None and known == g.decl().params()[0].name()
        return False

    def fork(self, st, alts, text):
        """alts: list of (guard, payload); returns list of (state, payload) for feasible guards."""
        out = []
        todo = []
        for n, (g, payload) in enumerate(alts):
            if g is True:
                out.append((n, st, payload, None))
                continue
            g = z3.simplify(g)
            if z3.is_false(g):
                continue
            if z3.is_true(g):
                out.append((n, st, payload, None))
                continue
            if self.quick_false(st, g):
                self.pruned += 1
                continue
            todo.append((n, g, payload))
        if todo:
            solver = self._solver(st, [g for _, g, _ in todo])
            for n, g, payload in todo:
                self.feas_checks += 1
                lit = z3.Bool("feas!%d" % n)
                solver.add(lit == g)
                if solver.check(lit) == z3.unsat:
                    self.pruned += 1
                    continue
                s2 = st.copy()
                s2.assume(g)
                self.learn_tags(s2, g)
                s2.sig.append("%s#%d" % (text, n))
                out.append((n, s2, payload, g))
        out.sort(key=lambda x: x[0])
        return [(s, p) for _, s, p, _ in out]

    # ------------------------------------------------------------------------------------------------
    # exceptions
    def make_exc(self, st, pycls, args=None, msg=None):
        e = st.alloc(pycls)
        if args is None:
            args = V.mk_tuple([msg]) if msg is not None else V.fresh("excargs")
        st.write(Val.ref(e), "args", args)
        return e

    def env_exc(self, st, base=Exception, label="envexc"):
        """an exception object raised by the environment: any class below `base`."""
        ref = st.aptr
        st.aptr = z3.simplify(st.aptr + 1)
        c = C.cls_of(ref)
        st.assume(C.subclass(c, base))
        for ax in C.unknown_class_axioms(c):
            st.assume(ax)
        return V.VObj(ref)

    def raise_alt(self, st, payload):
        """turn an ops alternative payload into an executor outcome."""
        if payload[0] == "val":
            return (st, ("val", payload[1]))
        if payload[0] == "raise":
            st = st.copy()
            e = self.make_exc(st, payload[1])
            return (st, ("raise", e))
        raise Unsupported(payload[1])

    def apply_op(self, st, alts, text):
        res = []
        for s2, payload in self.fork(st, alts, text):
            res.append(self.raise_alt(s2, payload))
        return res

    # ------------------------------------------------------------------------------------------------
    # expression evaluation: returns list of (state, ("val", v) | ("raise", exc))
    def bind(self, results, fn):
        out = []
        for st, oc in results:
            if oc[0] == "raise":
                out.append((st, oc))
            else:
                out.extend(fn(st, oc[1]))
        return out

    def eval_seq(self, st, exprs):
        """evaluate expressions left to right; returns list of (state, ("val", [values]))."""
        results = [(st, ("val", []))]
        for e in exprs:
            def step(s, acc, e=e):
                return self.bind(self.eval(s, e), lambda s2, v: [(s2, ("val", acc + [v]))])
            results = self.bind(results, step)
        return results

    def eval(self, st, e):
        m = getattr(self, "ev_" + type(e).__name__, None)
        if m is None:
            raise Unsupported("expression %s at line %s" % (type(e).__name__, getattr(e, "lineno", "?")))
        return m(st, e)

    def const(self, c):
        if c is None:
            return V.VNone
        if isinstance(c, bool):
            return V.B(c)
        if isinstance(c, int):
            return V.I(c)
        if isinstance(c, float):
            return V.py_to_val(c)
        if isinstance(c, str):
            return V.S(c)
        if isinstance(c, bytes):
            return V.py_to_val(c)
        raise Unsupported("constant %r" % (c,))

    def lift(self, v):
        """Meta constant -> Val where that is meaningful."""
        if isinstance(v, (View, RangeV, LazySeq, KeysTuple, TypeSet)):
            return v
        if isinstance(v, Meta):
            p = v.py
            if p is None or isinstance(p, (bool, int, float, str, bytes)):
                return self.const(p)
            if isinstance(p, tuple) and all(x is None or isinstance(x, (bool, int, float, str, bytes)) for x in p):
                return V.mk_tuple([self.const(x) for x in p])
            if isinstance(p, type):
                return V.VType(z3.IntVal(ops.BUILTIN_TYPE_IDS.get(p, C.cid(p))))
        return v

    def ev_Constant(self, st, e):
        return [(st, ("val", self.const(e.value)))]

    def ev_Name(self, st, e):
        if e.id in st.locals:
            return [(st, ("val", st.locals[e.id]))]
        mod = self.env.module
        if hasattr(mod, e.id):
            return [(st, ("val", self.meta_or_val(getattr(mod, e.id))))]
        import builtins
        if hasattr(builtins, e.id):
            return [(st, ("val", Meta(getattr(builtins, e.id))))]
        raise Unsupported("unbound name %s" % e.id)

    def meta_or_val(self, p):
        if p is None or isinstance(p, (bool, int, float, str, bytes)):
            return self.const(p)
        return Meta(p)

    def ev_JoinedStr(self, st, e):
        raise Unsupported("f-string")

    def ev_Tuple(self, st, e):
        def done(s, vals):
            if vals and all(isinstance(v, Meta) for v in vals):
                return [(s, ("val", Meta(tuple(v.py for v in vals))))]
            return [(s, ("val", V.mk_tuple([self.lift(v) for v in vals])))]
        return self.bind(self.eval_seq(st, e.elts), done)

    def ev_List(self, st, e):
        def done(s, vals):
            if vals and all(isinstance(v, Meta) for v in vals):
                return [(s, ("val", Meta([v.py for v in vals])))]
            return [(s, ("val", V.mk_list([self.lift(v) for v in vals])))]
        return self.bind(self.eval_seq(st, e.elts), done)

    def ev_Set(self, st, e):
        def done(s, vals):
            items = [self.lift(v) for v in vals]
            alts = [(z3.And(*[ops.hashable(i) for i in items]) if items else z3.BoolVal(True),
                     ("val", V.mk_seq(lambda n, a: V.VSet(n, a, z3.BoolVal(False)), items))),
                    (z3.Not(z3.And(*[ops.hashable(i) for i in items])) if items else z3.BoolVal(False), ("raise", TypeError))]
            return self.apply_op(s, alts, "set-literal")
        return self.bind(self.eval_seq(st, e.elts), done)

    def ev_Dict(self, st, e):
        if any(k is None for k in e.keys):
            raise Unsupported("dict unpacking in literal")

        def done(s, vals):
            n = len(e.keys)
            ks, vs = vals[:n], vals[n:]
            d = V.empty_dict()
            results = [(s, ("val", d))]
            for k, v in zip(ks, vs):
                results = self.bind(results, lambda s2, d2, k=k, v=v: self.dict_store(s2, d2, self.lift(k), self.lift(v)))
            return results
        return self.bind(self.eval_seq(st, list(e.keys) + list(e.values)), done)

    def dict_store(self, st, d, k, v):
        """d[k] = v on a dict value; returns list of (state, ("val", newdict) | raise)."""
        key = ops.to_key(k)
        had = V.dict_has(d, key)
        newd = V.VDict(z3.If(had, Val.dlen(d), Val.dlen(d) + 1), z3.Store(Val.dhas(d), key, True),
                       z3.Store(Val.dget(d), key, v))
        alts = [(ops.hashable(k), ("val", newd)), (z3.Not(ops.hashable(k)), ("raise", TypeError))]
        return self.apply_op(st, alts, "dict-store")

    def ev_Attribute(self, st, e):
        return self.bind(self.eval(st, e.value), lambda s, v: self.getattr_(s, v, e.attr, e))

    def getattr_(self, st, v, attr, node=None):
        attr = mangle(self.cls_name, attr)
        if isinstance(v, Meta):
            p = v.py
            if not hasattr(p, attr):
                raise Unsupported("attribute %s of %r" % (attr, p))
            return [(st, ("val", self.meta_or_val(getattr(p, attr))))]
        if isinstance(v, (BoundMeth, Star)):
            raise Unsupported("attribute of bound method")
        pycls = st.typeof(v)
        if pycls is None and z3.is_expr(v):
            # refinement by an earlier isinstance() test on the same term
            for k in self.isinst_cands.get(v.get_id(), ()):
                cond = z3.And(V.is_obj(v), C.subclass(C.cls_of(Val.ref(v)), k))
                if not self.feasible(st, z3.Not(cond)):
                    st.settype(v, k)
                    pycls = k
                    break
        if pycls is not None:
            return self.obj_getattr(st, v, pycls, attr)
        if attr == "__name__" and z3.is_expr(v):
            # type(x).__name__ / f.__name__
            tid = Val.tid(v)
            names = {-1: "NoneType", -2: "bool", -3: "int", -4: "float", -5: "str", -6: "bytes", -7: "list",
                     -8: "tuple", -9: "set", -10: "frozenset", -11: "dict", -12: "type", -13: "function"}
            nm = C.cname(tid)
            for k, txt in names.items():
                nm = z3.If(tid == k, z3.StringVal(txt), nm)
            fun_name = z3.Function("fun_name", z3.IntSort(), z3.StringSort())
            alts = [(V.is_type(v), ("val", V.VStr(nm))), (V.is_fun(v), ("val", V.VStr(fun_name(Val.fid(v))))),
                    (z3.Not(z3.Or(V.is_type(v), V.is_fun(v))), ("raise", AttributeError))]
            return self.apply_op(st, alts, "__name__")
        if attr == "__class__" and z3.is_expr(v):
            return [(st, ("val", V.VType(ops.type_id(v, C.cls_of))))]
        from . import builtins_model as _B
        if z3.is_expr(v) and attr not in _B._VM:
            # not a method of a builtin value: attribute of an instance the verifier knows nothing about
            return self.env.trusted.getattr_dyn(self, st, [v, V.S(attr)], "." + attr)
        # a Val of unknown static class: methods of builtin containers / strings
        return [(st, ("val", BoundMeth(v, attr)))]

    def obj_getattr(self, st, v, pycls, attr):
        import inspect
        static = inspect.getattr_static(pycls, attr, None) if pycls is not None else None
        declared = self.env.fields.lookup(pycls, attr)
        if declared is not None and not declared.get("const") and not pycls.__module__.startswith("jsonrpclib"):
            static = None        # an attribute of a library object that the trusted model keeps in the heap
        if isinstance(static, property):
            return self.call_function(st, static.fget, [v], {}, "property %s" % attr)
        if static is not None and (inspect.isfunction(static) or isinstance(static, (staticmethod, classmethod))
                                   or inspect.ismethoddescriptor(static) or inspect.isbuiltin(static)):
            return [(st, ("val", BoundMeth(v, attr, pycls)))]
        fieldinfo = self.env.fields.lookup(pycls, attr)
        if fieldinfo is not None and fieldinfo.get("const"):
            return [(st, ("val", self.meta_or_val(getattr(pycls, attr))))]
        ref = Val.ref(v)
        if fieldinfo is not None and fieldinfo.get("maybe_missing"):
            hasf = st.read(ref, "?has:" + attr)
            alts = [(hasf, ("field",)), (z3.Not(hasf), ("raise", AttributeError))]
            out = []
            for s2, payload in self.fork(st, alts, "hasattr:" + attr):
                if payload[0] == "raise":
                    out.append(self.raise_alt(s2, payload))
                else:
                    out.append((s2, ("val", self.read_field(s2, v, pycls, attr))))
            return out
        return [(st, ("val", self.read_field(st, v, pycls, attr)))]

    def read_field(self, st, v, pycls, attr):
        mon = getattr(self.env, "monitor", None)
        if mon is not None and hasattr(mon, "on_read"):
            mon.on_read(self, st, v, attr)
        val = st.read(Val.ref(v), attr)
        st.derived.add(st.pin(val).get_id())
        info = self.env.fields.lookup(pycls, attr) or {}
        ftype = info.get("type")
        if ftype is not None:
            t = self.env.fields.resolve(ftype)
            st.settype(val, t)
        if info.get("elem_type") is not None:
            st.elemtypes[st.pin(val).get_id()] = self.env.fields.resolve(info["elem_type"])
        return val

    def ev_Subscript(self, st, e):
        if isinstance(e.slice, ast.Slice):
            return self.bind(self.eval(st, e.value), lambda s, v: self.eval_slice(s, v, e.slice))

        def go(s, vals):
            x, k = self.lift(vals[0]), self.lift(vals[1])
            if isinstance(x, View):
                s = s.copy()
                return [(s, ("raise", self.make_exc(s, TypeError)))]
            if isinstance(x, Meta):
                try:
                    return [(s, ("val", self.meta_or_val(x.py[k.py if isinstance(k, Meta) else self.concrete(k)])))]
                except Exception:
                    raise Unsupported("subscript of meta value")
            res = self.apply_op(s, ops.op_getitem(x, k), "getitem:" + ast.unparse(e))
            for s2, oc in res:
                if oc[0] == "val":
                    self.component(s2, x, oc[1])
            return res
        return self.bind(self.eval_seq(st, [e.value, e.slice]), go)

    def component(self, st, container, comp):
        from . import jsonish
        if z3.is_expr(container) and z3.is_expr(comp):
            st.pc.append(jsonish.component(container, comp))
            st.derived.add(st.pin(comp).get_id())

    def concrete(self, v):
        sv = z3.simplify(v)
        if z3.is_true(z3.simplify(V.is_int(sv))):
            return z3.simplify(Val.i(sv)).as_long()
        if z3.is_true(z3.simplify(V.is_str(sv))):
            return z3.simplify(Val.s(sv)).as_string()
        raise Unsupported("value not concrete")

    def eval_slice(self, st, v, sl):
        if sl.step is not None:
            raise Unsupported("slice step")
        if isinstance(v, Meta):
            lo = sl.lower.value if isinstance(sl.lower, ast.Constant) else None
            hi = sl.upper.value if isinstance(sl.upper, ast.Constant) else None
            if (sl.lower is not None and lo is None) or (sl.upper is not None and hi is None):
                raise Unsupported("meta slice with dynamic bounds")
            return [(st, ("val", Meta(v.py[lo:hi])))]
        parts = [p for p in (sl.lower, sl.upper) if p is not None]

        def go(s, vals):
            it = iter(vals)
            lo = next(it) if sl.lower is not None else None
            hi = next(it) if sl.upper is not None else None
            return self.slice_value(s, self.lift(v), lo, hi)
        return self.bind(self.eval_seq(st, parts), go)

    def slice_value(self, st, v, lo, hi):
        """x[lo:hi] for list/tuple/str with non-negative symbolic int bounds (or absent)."""
        out = []
        lo_i = Val.i(lo) if lo is not None else z3.IntVal(0)
        for tst, ln, at, mk in ((V.is_list, Val.llen, Val.lat, V.VList), (V.is_tuple, Val.tlen, Val.tat, V.VTuple)):
            n = ln(v)
            hi_i = Val.i(hi) if hi is not None else n
            lo_c = z3.If(lo_i < 0, z3.If(lo_i + n < 0, 0, lo_i + n), z3.If(lo_i > n, n, lo_i))
            hi_c = z3.If(hi_i < 0, z3.If(hi_i + n < 0, 0, hi_i + n), z3.If(hi_i > n, n, hi_i))
            newlen = z3.If(hi_c > lo_c, hi_c - lo_c, 0)
            j = z3.Int("j!slice")
            arr = z3.Lambda([j], z3.Select(at(v), j + lo_c))
            out.append((tst(v), ("val", mk(newlen, arr))))
        s_ = Val.s(v)
        n = z3.Length(s_)
        hi_i = Val.i(hi) if hi is not None else n
        lo_c = z3.If(lo_i < 0, z3.If(lo_i + n < 0, 0, lo_i + n), z3.If(lo_i > n, n, lo_i))
        hi_c = z3.If(hi_i < 0, z3.If(hi_i + n < 0, 0, hi_i + n), z3.If(hi_i > n, n, hi_i))
        out.append((V.is_str(v), ("val", V.VStr(z3.SubString(s_, lo_c, z3.If(hi_c > lo_c, hi_c - lo_c, 0))))))
        out.append((z3.Not(z3.Or(V.is_list(v), V.is_tuple(v), V.is_str(v))), ("unsupported", "slice of this kind")))
        res = self.apply_op(st, out, "slice")
        et = st.elemtypes.get(v.get_id()) if z3.is_expr(v) else None
        if et is not None:
            for s2, oc in res:
                if oc[0] == "val":
                    s2.elemtypes[s2.pin(oc[1]).get_id()] = et
        return res

    def ev_UnaryOp(self, st, e):
        def go(s, v):
            v = self.lift(v)
            if isinstance(e.op, ast.Not):
                return [(s, ("val", V.VBool(z3.Not(self.truthy(v)))))]
            if isinstance(e.op, ast.USub):
                return self.apply_op(s, ops.op_neg(v), "neg")
            raise Unsupported("unary %s" % type(e.op).__name__)
        return self.bind(self.eval(st, e.operand), go)

    def truthy(self, v):
        if isinstance(v, Meta):
            return z3.BoolVal(bool(v.py))
        if isinstance(v, BoundMeth):
            return z3.BoolVal(True)
        return V.truthy(v)

    def ev_BinOp(self, st, e):
        def go(s, vals):
            a, b = self.lift(vals[0]), self.lift(vals[1])
            if isinstance(a, Meta) and isinstance(b, Meta):
                import operator
                fn = {ast.Add: operator.add, ast.Sub: operator.sub, ast.Mult: operator.mul}.get(type(e.op))
                if fn is None:
                    raise Unsupported("binop on meta")
                return [(s, ("val", self.meta_or_val(fn(a.py, b.py))))]
            if isinstance(a, Meta) and isinstance(b, KeysTuple) and isinstance(e.op, ast.Add) and isinstance(a.py, tuple):
                return [(s, ("val", TypeSet(a.py, b.d)))]
            if isinstance(a, Meta) or isinstance(b, Meta):
                raise Unsupported("binop meta/val: %s" % ast.unparse(e))
            if isinstance(e.op, ast.Add):
                res = self.apply_op(s, ops.op_add(a, b), "add")
                for s2, oc in res:
                    s2.pc.extend(ops.concat_facts(a, b))
                return res
            if isinstance(e.op, ast.Sub):
                return self.apply_op(s, ops.op_sub(a, b), "sub")
            if isinstance(e.op, ast.Mult):
                return self.apply_op(s, ops.op_mul(a, b), "mul")
            if isinstance(e.op, ast.Mod):
                return self.percent_format(s, a, b)
            raise Unsupported("binary operator %s" % type(e.op).__name__)
        return self.bind(self.eval_seq(st, [e.left, e.right]), go)

    def percent_format(self, st, fmt, arg):
        f = z3.simplify(fmt)
        if not z3.is_true(z3.simplify(V.is_str(f))) or not z3.is_string_value(z3.simplify(Val.s(f))):
            raise Unsupported("%-format with a non-literal format")
        text = z3.simplify(Val.s(f)).as_string()
        if text.count("%s") != 1 or text.count("%") != 1:
            raise Unsupported("%-format other than a single %s")
        pre, post = text.split("%s")
        return [(st, ("val", V.VStr(z3.Concat(z3.StringVal(pre), V.str_image(arg), z3.StringVal(post)))))]

    def ev_BoolOp(self, st, e):
        is_and = isinstance(e.op, ast.And)

        def chain(s, idx, cur):
            if idx == len(e.values):
                return [(s, ("val", cur))]
            nxt = e.values[idx]
            cond = self.truthy(self.lift(cur)) if not isinstance(cur, (BoundMeth,)) else z3.BoolVal(True)
            go_on = cond if is_and else z3.Not(cond)
            if self.is_simple(nxt):
                # no effect, cannot raise: merge into an if-then-else value instead of forking
                res = self.eval(s, nxt)
                if len(res) == 1 and res[0][1][0] == "val":
                    nv = res[0][1][1]
                    cl, nl = self.lift(cur), self.lift(nv)
                    if z3.is_expr(cl) and z3.is_expr(nl):
                        merged = z3.If(go_on, nl, cl)
                        t = s.typeof(nl) or s.typeof(cl)
                        s.settype(merged, t)
                        return chain(res[0][0], idx + 1, merged)
            out = []
            for s2, tag in self.fork(s, [(go_on, "next"), (z3.Not(go_on), "stop")], "boolop:" + ast.unparse(e.values[idx - 1])):
                if tag == "stop":
                    out.append((s2, ("val", cur)))
                else:
                    out.extend(self.bind(self.eval(s2, nxt), lambda s3, v: chain(s3, idx + 1, v)))
            return out
        return self.bind(self.eval(st, e.values[0]), lambda s, v: chain(s, 1, v))

    def is_simple(self, e):
        if isinstance(e, ast.Constant):
            return True
        if isinstance(e, ast.Name):
            return True
        if isinstance(e, ast.Attribute):
            return self.is_simple(e.value) and isinstance(e.value, ast.Name) and e.value.id in ("self", "config", "json_config")
        if isinstance(e, (ast.List, ast.Dict, ast.Tuple)):
            return not (e.elts if not isinstance(e, ast.Dict) else e.keys)
        return False

    def ev_IfExp(self, st, e):
        def go(s, c):
            cond = self.truthy(self.lift(c))
            out = []
            for s2, tag in self.fork(s, [(cond, "then"), (z3.Not(cond), "else")], "ifexp:" + ast.unparse(e.test)):
                out.extend(self.eval(s2, e.body if tag == "then" else e.orelse))
            return out
        return self.bind(self.eval(st, e.test), go)

    def ev_Compare(self, st, e):
        def step(s, left, idx, acc):
            # acc: conjunction so far (z3 Bool) ; chains evaluate every operand at most once
            if idx == len(e.ops):
                return [(s, ("val", V.VBool(acc)))]
            op, right_e = e.ops[idx], e.comparators[idx]

            def with_right(s2, right):
                def after(s3, res):
                    r = Val.b(res) if z3.is_expr(res) else res
                    newacc = r if acc is None else z3.And(acc, r)
                    if idx + 1 == len(e.ops):
                        return [(s3, ("val", V.VBool(newacc)))]
                    # short-circuit of a chain: if false so far the rest is not evaluated
                    out = []
                    for s4, tag in self.fork(s3, [(newacc, "go"), (z3.Not(newacc), "stop")], "chain"):
                        if tag == "stop":
                            out.append((s4, ("val", V.B(False))))
                        else:
                            out.extend(step(s4, right, idx + 1, z3.BoolVal(True)))
                    return out
                return self.bind(self.compare(s2, op, left, right, right_e), after)
            return self.bind(self.eval(s, right_e), with_right)
        return self.bind(self.eval(st, e.left), lambda s, l: step(s, l, 0, None))

    def compare(self, st, op, a, b, b_node=None):
        a0, b0 = a, b
        a, b = self.lift(a), self.lift(b)
        if isinstance(op, (ast.Is, ast.IsNot)):
            r = self.identity(st, a, b)
            return [(st, ("val", V.VBool(r if isinstance(op, ast.Is) else z3.Not(r))))]
        if isinstance(a, (Meta, BoundMeth)) or isinstance(b, (Meta, BoundMeth)):
            if isinstance(op, (ast.In, ast.NotIn)) and isinstance(b0, Meta) and isinstance(b0.py, (tuple, list)) \
                    and z3.is_expr(a):
                items = [self.const(x) for x in b0.py]
                r = z3.Or(*[ops.py_eq(a, i) for i in items]) if items else z3.BoolVal(False)
                return [(st, ("val", V.VBool(r if isinstance(op, ast.In) else z3.Not(r))))]
            if isinstance(a0, Meta) and isinstance(b0, Meta) and isinstance(op, (ast.Eq, ast.NotEq)):
                r = a0.py == b0.py
                return [(st, ("val", V.B(r if isinstance(op, ast.Eq) else not r)))]
            raise Unsupported("comparison with a meta value")
        if isinstance(op, (ast.Eq, ast.NotEq)):
            r = ops.py_eq(a, b)
            st.pc.extend(ops.container_eq_facts(a, b))
            return [(st, ("val", V.VBool(r if isinstance(op, ast.Eq) else z3.Not(r))))]
        if isinstance(op, (ast.In, ast.NotIn)):
            exact = None
            if isinstance(b_node, (ast.Tuple, ast.List, ast.Set)):
                exact = self.literal_items(b, len(b_node.elts))
            res = self.apply_op(st, ops.op_in(a, b, exact), "in:" + (ast.unparse(b_node) if b_node is not None else ""))
            if isinstance(op, ast.NotIn):
                res = [(s, (k, V.VBool(z3.Not(Val.b(v))) if k == "val" else v)) for s, (k, v) in res]
            return res
        sym = {ast.Lt: "<", ast.LtE: "<=", ast.Gt: ">", ast.GtE: ">="}.get(type(op))
        if sym is None:
            raise Unsupported("comparison %s" % type(op).__name__)
        return self.apply_op(st, ops.op_compare(sym, a, b), "cmp" + sym)

    def literal_items(self, seqv, n):
        at = V.seq_at(seqv)
        return [z3.simplify(z3.Select(at, z3.IntVal(j))) for j in range(n)]

    def identity(self, st, a, b):
        if isinstance(a, Meta) or isinstance(b, Meta) or isinstance(a, BoundMeth) or isinstance(b, BoundMeth):
            if isinstance(a, Meta) and isinstance(b, Meta):
                return z3.BoolVal(a.py is b.py)
            for x, y in ((a, b), (b, a)):
                if isinstance(y, Meta) and isinstance(y.py, type) and z3.is_expr(x):
                    # `type(v) is bytes`: a type value against a class known statically
                    tid = ops.BUILTIN_TYPE_IDS.get(y.py, None)
                    tid = z3.IntVal(tid if tid is not None else C.cid(y.py))
                    return z3.And(V.is_type(x), Val.tid(x) == tid)
                if isinstance(y, Meta) and y.py is None and z3.is_expr(x):
                    return V.is_none(x)
            raise Unsupported("identity test with a meta value")
        both_prim = z3.And(z3.Or(V.is_none(a), V.is_bool(a), V.is_obj(a), V.is_fun(a), V.is_type(a)),
                           z3.Or(V.is_none(b), V.is_bool(b), V.is_obj(b), V.is_fun(b), V.is_type(b)))
        unk = V.fresh("is", z3.BoolSort())
        # identity of None/bool/instances/functions is term equality; containers and str/int: unknown
        # but never identical when the values differ
        st.pc.append(z3.Implies(unk, a == b))
        return z3.If(both_prim, a == b, z3.If(z3.Or(V.is_none(a), V.is_none(b), V.is_obj(a), V.is_obj(b)), False, unk))

    def ev_Lambda(self, st, e):
        raise Unsupported("lambda")

    def ev_Call(self, st, e):
        if isinstance(e.func, ast.Attribute) and e.func.attr == "append" and isinstance(e.func.value, ast.Name) \
                and isinstance(st.locals.get(e.func.value.id), Meta) and isinstance(st.locals[e.func.value.id].py, list) \
                and len(e.args) == 1 and not e.keywords:
            # a python-level list of types (e.g. valid_params): functional update of the local
            def go(s, v):
                if not isinstance(v, Meta):
                    raise Unsupported("append of a symbolic value to a meta list")
                s = s.copy()
                s.locals[e.func.value.id] = Meta(list(s.locals[e.func.value.id].py) + [v.py])
                return [(s, ("val", V.VNone))]
            return self.bind(self.eval(st, e.args[0]), go)
        return self.bind(self.eval(st, e.func), lambda s, f: self.eval_call(s, f, e))

    def eval_call(self, st, f, e):
        arg_exprs = []
        for a in e.args:
            arg_exprs.append(a.value if isinstance(a, ast.Starred) else a)
        kw_exprs = [k.value for k in e.keywords]

        def go(s, vals):
            n = len(e.args)
            args = []
            for a, v in zip(e.args, vals[:n]):
                args.append(Star(self.lift(v)) if isinstance(a, ast.Starred) else v)
            kwargs = {}
            for k, v in zip(e.keywords, vals[n:]):
                if k.arg is None:
                    kwargs["**"] = self.lift(v)
                else:
                    kwargs[k.arg] = v
            return self.call(s, f, args, kwargs, e)
        return self.bind(self.eval_seq(st, arg_exprs + kw_exprs), go)

    # ------------------------------------------------------------------------------------------------
    # calls
    def call(self, st, f, args, kwargs, node):
        text = ast.unparse(node.func) if node is not None else "?"
        if isinstance(f, BoundMeth):
            if f.cls is not None:
                import inspect
                static = inspect.getattr_static(f.cls, f.name)
                if isinstance(static, staticmethod):
                    return self.call_function(st, static.__func__, list(args), kwargs, text)
                fn = getattr(f.cls, f.name)
                return self.call_function(st, fn, [f.recv] + list(args), kwargs, text)
            return self.call_value_method(st, f.recv, f.name, args, kwargs, node)
        if isinstance(f, Meta):
            p = f.py
            if isinstance(p, type):
                return self.construct(st, p, args, kwargs, text)
            return self.call_function(st, p, list(args), kwargs, text)
        if z3.is_expr(f):
            if not args and not kwargs and not self.feasible(st, z3.Not(V.is_type(f))):
                # type(x)() for a builtin type value: the empty value of that type
                tid = Val.tid(f)
                alts = [(tid == -5, ("val", V.S(""))), (tid == -6, ("val", V.VBytes(z3.StringVal("")))),
                        (tid == -7, ("val", V.empty_list())), (tid == -11, ("val", V.empty_dict())),
                        (z3.Not(z3.Or(tid == -5, tid == -6, tid == -7, tid == -11)), ("unsupported", "call of a type value"))]
                return self.apply_op(st, alts, "type()()")
            return self.call_symbolic(st, f, args, kwargs, text)
        raise Unsupported("call of %r" % (f,))

    def call_symbolic(self, st, f, args, kwargs, text):
        """call of a value that is not known statically: an environment callable."""
        return self.env.trusted.env_call(self, st, f, args, kwargs, text)

    def construct(self, st, pycls, args, kwargs, text):
        from . import builtins_model as B
        h = B.constructor(pycls)
        if h is not None:
            return h(self, st, args, kwargs, text)
        init = getattr(pycls, "__init__", None)
        import inspect as _insp
        if issubclass(pycls, BaseException) and not _insp.isfunction(init):
            s = st.copy()
            e = self.make_exc(s, pycls, V.mk_tuple([self.lift(a) for a in args]))
            return [(s, ("val", e))]
        if issubclass(pycls, dict) and not args and not kwargs and init is dict.__init__:
            return [(st, ("val", V.empty_dict()))]       # dict subclasses without state (LocalClasses)
        s = st.copy()
        obj = s.alloc(pycls)
        if init is object.__init__:
            return [(s, ("val", obj))]
        res = self.call_function(s, init, [obj] + list(args), kwargs, text + ".__init__")
        return [(s2, (("val", obj) if oc[0] == "val" else oc)) for s2, oc in res]

    def call_function(self, st, fn, args, kwargs, text):
        """fn: a real Python function object (repository, stdlib or builtin)."""
        from . import builtins_model as B
        h = B.lookup(fn)
        if h is not None:
            return h(self, st, args, kwargs, text)
        key = self.fn_key(fn)
        con = self.env.contracts.get(key)
        if con is not None:
            return self.apply_contract(st, con, fn, args, kwargs, text)
        t = self.env.trusted.lookup(key)
        if t is not None:
            return t(self, st, args, kwargs, text)
        if key.startswith("jsonrpclib."):
            return self.inline_call(st, fn, key, args, kwargs, text)
        raise Unsupported("call of %s (no trusted contract)" % key)

    def inline_call(self, st, fn, key, args, kwargs, text):
        """a repository function without a contract (e.g. a helper introduced by a change): its body is
        executed in place.  The caller is then checked against the callee's body, which is stronger than a
        contract; only modularity is lost."""
        from . import extract, contracts as CT
        import copy as _copy
        depth = getattr(self, "inline_depth", 0)
        if depth >= 3:
            raise MissingContract(key + " (inlining depth exceeded)")
        from .verify import split_key
        try:
            modname, qual = split_key(key)
            ft = extract.get_function(modname, qual)
        except Exception as e:
            raise MissingContract("%s (%s)" % (key, e))
        env2 = _copy.copy(self.env)
        env2.fn = ft
        env2.module = extract.real_module(modname)
        env2.cls = extract.real_object(modname, qual.rsplit(".", 1)[0]) if "." in qual else None
        env2.contract = None
        env2.real_fn = fn
        sub = Executor(env2, self.max_paths)
        sub.inline_depth = depth + 1
        sub.dead_paths = self.dead_paths
        sub.isinst_cands = self.isinst_cands
        sub.pinned = self.pinned
        sub.never_written = getattr(self, "never_written", None)
        sub.root_key = getattr(self, "root_key", key)
        sub.root_props = getattr(self, "root_props", ())
        bound = CT.bind_arguments(fn, args, kwargs, self)
        s0 = st.copy()
        saved_locals = s0.locals
        s0.locals = dict(bound)
        s0.sig.append("inline:" + key)
        self.inlined = getattr(self, "inlined", set())
        self.inlined.add(key)
        out = []
        for o in sub.run(s0):
            s2 = o.st
            s2.locals = dict(saved_locals)
            self.feas_checks += 0
            out.append((s2, ("val", o.value) if o.kind == RETURN else ("raise", o.value)))
        self.pruned += sub.pruned
        return out

    def fn_key(self, fn):
        mod = getattr(fn, "__module__", None) or getattr(getattr(fn, "__objclass__", None), "__module__", "builtins")
        qn = getattr(fn, "__qualname__", getattr(fn, "__name__", repr(fn)))
        return "%s.%s" % (mod, qn)

    def call_value_method(self, st, recv, name, args, kwargs, node):
        from . import builtins_model as B
        return B.value_method(self, st, recv, name, args, kwargs, node)

    # ------------------------------------------------------------------------------------------------
    # contracts at call sites
    def apply_contract(self, st, con, fn, args, kwargs, text):
        from .contracts import CallCtx
        return CallCtx.apply(self, st, con, fn, args, kwargs, text)

    # ------------------------------------------------------------------------------------------------
    # comprehensions
    def ev_ListComp(self, st, e):
        return self.env.trusted.comprehension(self, st, e, "list")

    def ev_DictComp(self, st, e):
        return self.env.trusted.comprehension(self, st, e, "dict")

    def ev_GeneratorExp(self, st, e):
        return self.env.trusted.comprehension(self, st, e, "gen")

    def ev_Yield(self, st, e):
        return self.env.trusted.yield_point(self, st, e)

    def ev_Starred(self, st, e):
        raise Unsupported("starred expression outside a call")

    # ------------------------------------------------------------------------------------------------
    # statements: returns list of (state, (ctl, value))
    def exec_block(self, st, stmts):
        results = [(st, (NORMAL, None))]
        for stmt in stmts:
            nxt = []
            for s, ctl in results:
                if ctl[0] != NORMAL:
                    nxt.append((s, ctl))
                else:
                    nxt.extend(self.exec(s, stmt))
            results = nxt
            if len(results) > self.max_paths:
                raise Budget("more than %d paths" % self.max_paths)
        return results

    def exec(self, st, stmt):
        import time as _t
        if _t.time() - self.t_start > self.budget_s:
            raise Budget("symbolic execution exceeded %ds" % self.budget_s)
        m = getattr(self, "st_" + type(stmt).__name__, None)
        if m is None:
            raise Unsupported("statement %s at line %s" % (type(stmt).__name__, stmt.lineno))
        return m(st, stmt)

    def from_expr(self, results, fn):
        """results of an expression -> statement results via fn(state, value)."""
        out = []
        for s, oc in results:
            if oc[0] == "raise":
                out.append((s, (RAISE, oc[1])))
            else:
                out.extend(fn(s, oc[1]))
        return out

    def st_Pass(self, st, stmt):
        return [(st, (NORMAL, None))]

    def st_Expr(self, st, stmt):
        if isinstance(stmt.value, ast.Constant):
            return [(st, (NORMAL, None))]
        return self.from_expr(self.eval(st, stmt.value), lambda s, v: [(s, (NORMAL, None))])

    def st_Return(self, st, stmt):
        if stmt.value is None:
            return [(st, (RETURN, V.VNone))]
        return self.from_expr(self.eval(st, stmt.value), lambda s, v: [(s, (RETURN, v))])

    def st_Break(self, st, stmt):
        return [(st, (BREAK, None))]

    def st_Continue(self, st, stmt):
        return [(st, (CONTINUE, None))]

    def st_Global(self, st, stmt):
        raise Unsupported("global")

    def st_Assert(self, st, stmt):
        def go(s, v):
            cond = self.truthy(self.lift(v))
            out = []
            for s2, tag in self.fork(s, [(cond, "ok"), (z3.Not(cond), "fail")], "assert:" + ast.unparse(stmt.test)):
                if tag == "ok":
                    out.append((s2, (NORMAL, None)))
                else:
                    s3 = s2.copy()
                    out.append((s3, (RAISE, self.make_exc(s3, AssertionError))))
            return out
        return self.from_expr(self.eval(st, stmt.test), go)

    def st_Raise(self, st, stmt):
        if stmt.exc is None:
            if not st.exc_stack:
                raise Unsupported("bare raise outside a handler")
            return [(st, (RAISE, st.exc_stack[-1]))]
        if stmt.cause is not None:
            raise Unsupported("raise ... from")

        def go(s, v):
            if isinstance(v, Meta) and isinstance(v.py, type):
                s = s.copy()
                return [(s, (RAISE, self.make_exc(s, v.py, V.mk_tuple([]))))]
            return [(s, (RAISE, v))]
        return self.from_expr(self.eval(st, stmt.exc), go)

    def st_If(self, st, stmt):
        def go(s, v):
            cond = self.truthy(self.lift(v)) if not isinstance(v, BoundMeth) else z3.BoolVal(True)
            out = []
            for s2, tag in self.fork(s, [(cond, "T"), (z3.Not(cond), "F")], "if:" + ast.unparse(stmt.test)):
                out.extend(self.exec_block(s2, stmt.body if tag == "T" else stmt.orelse))
            return out
        return self.from_expr(self.eval(st, stmt.test), go)

    # --- assignment -------------------------------------------------------------------------------------
    def st_Assign(self, st, stmt):
        def go(s, v):
            results = [(s, (NORMAL, None))]
            for tgt in stmt.targets:
                results = self.chain(results, lambda s2, tgt=tgt: self.assign(s2, tgt, v))
            return results
        return self.from_expr(self.eval(st, stmt.value), go)

    def st_AnnAssign(self, st, stmt):
        if stmt.value is None:
            return [(st, (NORMAL, None))]
        return self.from_expr(self.eval(st, stmt.value), lambda s, v: self.assign(s, stmt.target, v))

    def chain(self, results, fn):
        out = []
        for s, ctl in results:
            if ctl[0] != NORMAL:
                out.append((s, ctl))
            else:
                out.extend(fn(s))
        return out

    def st_AugAssign(self, st, stmt):
        self.alias_guard(st, stmt.target, only_if_container=True)
        load = ast.copy_location(ast.BinOp(left=self.as_load(stmt.target), op=stmt.op, right=stmt.value), stmt)
        return self.from_expr(self.eval(st, load), lambda s, v: self.assign(s, stmt.target, v))

    def as_load(self, tgt):
        import copy
        t = copy.deepcopy(tgt)
        for n in ast.walk(t):
            if hasattr(n, "ctx"):
                n.ctx = ast.Load()
        return t

    def assign(self, st, tgt, v):
        """returns statement results."""
        if isinstance(tgt, ast.Name):
            s = st.copy()
            s.locals[tgt.id] = v
            return [(s, (NORMAL, None))]
        if isinstance(tgt, (ast.Tuple, ast.List)):
            return self.unpack(st, tgt, v)
        if isinstance(tgt, ast.Attribute):
            def go(s, obj):
                return self.setattr_(s, obj, tgt.attr, self.lift(v))
            return self.from_expr(self.eval(st, tgt.value), go)
        if isinstance(tgt, ast.Subscript):
            if isinstance(tgt.slice, ast.Slice):
                raise Unsupported("slice assignment")

            self.alias_guard(st, tgt.value)

            def go(s, vals):
                cont, k = self.lift(vals[0]), self.lift(vals[1])
                return self.from_expr(self.container_store(s, cont, k, self.lift(v)),
                                      lambda s2, newc: self.assign(s2, self.as_store(tgt.value), newc))
            return self.from_expr(self.eval_seq(st, [tgt.value, tgt.slice]), go)
        raise Unsupported("assignment target %s" % type(tgt).__name__)

    def alias_guard(self, st, node, only_if_container=False):
        """Containers are values in the encoding: a mutating operation rebinds the expression it was applied to.  That is
        exact when the expression is a parameter (frame[param] obligations), an attribute (the field is written) or a local
        holding a container built in this function.  It is NOT exact when the local is an alias of a component of another
        container or of a field (x = d["k"]; x.append(1) changes d in Python): such code is outside the accepted subset and
        the function is reported UNDECIDED instead of being verified with the wrong meaning."""
        if not isinstance(node, ast.Name):
            return
        v = st.locals.get(node.id)
        if not z3.is_expr(v) or v.get_id() not in st.derived:
            return
        if only_if_container and not self.feasible(st, z3.Or(V.is_list(v), V.is_dict(v), V.is_set(v))):
            return
        raise Unsupported("in-place mutation of '%s', an alias of a component of another container or of a field "
                          "(line %s): value semantics cannot carry the change back" % (node.id, getattr(node, "lineno", "?")))

    def mark_derived(self, st, v):
        if z3.is_expr(v):
            st.derived.add(st.pin(v).get_id())

    def as_store(self, e):
        return e   # assign() dispatches on node type only

    def container_store(self, st, cont, k, v):
        """cont[k] = v ; value semantics: returns the updated container."""
        key = ops.to_key(k)
        had = V.dict_has(cont, key)
        newd = V.VDict(z3.If(had, Val.dlen(cont), Val.dlen(cont) + 1), z3.Store(Val.dhas(cont), key, True),
                       z3.Store(Val.dget(cont), key, v))
        ki = Val.i(k)
        n = Val.llen(cont)
        j = ops.norm_index(ki, n)
        alts = [
            (z3.And(V.is_dict(cont), ops.hashable(k)), ("val", newd)),
            (z3.And(V.is_dict(cont), z3.Not(ops.hashable(k))), ("raise", TypeError)),
            (z3.And(V.is_list(cont), V.is_int(k), j >= 0, j < n), ("val", V.VList(n, z3.Store(Val.lat(cont), j, v)))),
            (z3.And(V.is_list(cont), V.is_int(k), z3.Not(z3.And(j >= 0, j < n))), ("raise", IndexError)),
            (z3.And(V.is_list(cont), z3.Not(V.is_int(k))), ("raise", TypeError)),
            (z3.Not(z3.Or(V.is_dict(cont), V.is_list(cont))), ("raise", TypeError)),
        ]
        return self.apply_op(st, alts, "setitem")

    def setattr_(self, st, obj, attr, v):
        attr = mangle(self.cls_name, attr)
        if not z3.is_expr(obj):
            raise Unsupported("attribute store on a meta value")
        s = st.copy()
        if isinstance(v, (Meta, BoundMeth)):
            v = self.reify(s, v)
        s.write(Val.ref(obj), attr, v)
        pycls = s.typeof(obj)
        info = self.env.fields.lookup(pycls, attr) if pycls is not None else None
        if info is not None and info.get("maybe_missing"):
            s.write(Val.ref(obj), "?has:" + attr, z3.BoolVal(True))
        self.on_write(s, obj, attr)
        return [(s, (NORMAL, None))]

    def on_write(self, st, obj, attr):
        mon = getattr(self.env, "monitor", None)
        if mon is not None:
            mon.on_write(self, st, obj, attr)
        nw = getattr(self, "never_written", None)
        if nw and attr in nw and z3.is_expr(obj):
            # a frame clause compares the final heap with the initial one; a field that other threads read meanwhile must
            # not even be written and restored: every write to it has to go to an object allocated during this call
            st.obligations.append(Obligation("%s/no-transient-write[%s]" % (self.root_key, attr), st.hyps(),
                                             Val.ref(obj) >= ALLOC0, st.sig, "frame", "no-transient-write " + attr,
                                             self.root_props))

    def reify(self, st, v):
        """a Val standing for a python-level callable / class stored into the heap."""
        if isinstance(v, Meta):
            lv = self.lift(v)
            if z3.is_expr(lv):
                return lv
            return self.env.trusted.reify_meta(self, st, v)
        if isinstance(v, BoundMeth):
            return self.env.trusted.reify_bound(self, st, v)
        return v

    def unpack(self, st, tgt, v):
        v = self.lift(v)
        n = len(tgt.elts)
        if isinstance(v, Meta):
            if len(v.py) != n:
                raise Unsupported("unpack arity")
            results = [(st, (NORMAL, None))]
            for t, x in zip(tgt.elts, v.py):
                results = self.chain(results, lambda s, t=t, x=x: self.assign(s, t, self.meta_or_val(x)))
            return results
        ln = V.seq_len(v)
        okc = z3.And(z3.Or(V.is_tuple(v), V.is_list(v)), ln == n)
        out = []
        for s, tag in self.fork(st, [(okc, "ok"), (z3.And(z3.Or(V.is_tuple(v), V.is_list(v)), ln != n), "arity"),
                                     (z3.Not(z3.Or(V.is_tuple(v), V.is_list(v))), "type")], "unpack"):
            if tag == "ok":
                results = [(s, (NORMAL, None))]
                at = V.seq_at(v)
                for j, t in enumerate(tgt.elts):
                    results = self.chain(results, lambda s2, t=t, j=j: self.assign(s2, t, z3.Select(at, z3.IntVal(j))))
                out.extend(results)
            elif tag == "arity":
                s2 = s.copy()
                out.append((s2, (RAISE, self.make_exc(s2, ValueError))))
            else:
                # strings/dicts/sets are iterable too; not needed by the verified code
                s2 = s.copy()
                s2.notes.append("unpack of a non-sequence treated as TypeError")
                out.append((s2, (RAISE, self.make_exc(s2, TypeError))))
        return out

    def st_Delete(self, st, stmt):
        results = [(st, (NORMAL, None))]
        for tgt in stmt.targets:
            results = self.chain(results, lambda s, tgt=tgt: self.delete(s, tgt))
        return results

    def delete(self, st, tgt):
        if isinstance(tgt, ast.Subscript):
            self.alias_guard(st, tgt.value)
            if isinstance(tgt.slice, ast.Slice):
                sl = tgt.slice
                if sl.lower is None and sl.upper is None and sl.step is None:
                    # del x[:]  -> x becomes empty (list)
                    def go(s, cont):
                        return self.assign(s, tgt.value, V.empty_list())
                    return self.from_expr(self.eval(st, tgt.value), go)
                if sl.step is None and (sl.lower is None) != (sl.upper is None):
                    # del x[:k] / del x[k:] on a list: x becomes x[k:] / x[:k] (same clamping as the slice expression)
                    bound_e = sl.upper if sl.lower is None else sl.lower

                    def go2(s, vals):
                        cont, b = self.lift(vals[0]), vals[1]
                        if self.feasible(s, z3.Not(V.is_list(cont))):
                            raise Unsupported("del of a slice of a value that may not be a list")
                        if self.feasible(s, z3.Not(V.is_int(self.lift(b)))):
                            raise Unsupported("del of a slice whose bound may not be an int")
                        kept = self.slice_value(s, cont, b, None) if sl.lower is None else self.slice_value(s, cont, None, b)
                        return self.from_expr(kept, lambda s2, v2: self.assign(s2, tgt.value, v2))
                    return self.from_expr(self.eval_seq(st, [tgt.value, bound_e]), go2)
                raise Unsupported("del of a slice")

            def go(s, vals):
                cont, k = self.lift(vals[0]), self.lift(vals[1])
                key = ops.to_key(k)
                had = V.dict_has(cont, key)
                newd = V.VDict(Val.dlen(cont) - 1, z3.Store(Val.dhas(cont), key, False), Val.dget(cont))
                alts = [(z3.And(V.is_dict(cont), ops.hashable(k), had), ("val", newd)),
                        (z3.And(V.is_dict(cont), ops.hashable(k), z3.Not(had)), ("raise", KeyError)),
                        (z3.And(V.is_dict(cont), z3.Not(ops.hashable(k))), ("raise", TypeError)),
                        (V.is_list(cont), ("unsupported", "del list[i]")),
                        (z3.Not(z3.Or(V.is_dict(cont), V.is_list(cont))), ("raise", TypeError))]
                return self.from_expr(self.apply_op(s, alts, "delitem"),
                                      lambda s2, newc: self.assign(s2, tgt.value, newc))
            return self.from_expr(self.eval_seq(st, [tgt.value, tgt.slice]), go)
        if isinstance(tgt, ast.Name):
            s = st.copy()
            s.locals.pop(tgt.id, None)
            return [(s, (NORMAL, None))]
        raise Unsupported("del target")

    # --- try / with -------------------------------------------------------------------------------------
    def merge_raising(self, base, states):
        """join of several states that all enter the same catch-all handler: facts, locals, heap fields and ghost
        values they share are kept, everything else is havocked, the exception is an arbitrary BaseException.
        An over-approximation of each of them (sound); used to avoid running a long handler once per raising point."""
        first = states[0]
        m = first.copy()
        common = None
        for s_ in states:
            ids = set(f.get_id() for f in s_.pc)
            common = ids if common is None else (common & ids)
        m.pc = [f for f in first.pc if f.get_id() in common]
        hard_common = None
        for s_ in states:
            ids = set(f.get_id() for f in s_.hard)
            hard_common = ids if hard_common is None else (hard_common & ids)
        m.hard = [f for f in first.hard if f.get_id() in hard_common]
        for name, v in list(first.locals.items()):
            same = all(name in s_.locals and ((z3.is_expr(v) and z3.is_expr(s_.locals[name]) and v.eq(s_.locals[name]))
                                              or v is s_.locals[name]) for s_ in states)
            if not same:
                if z3.is_expr(v):
                    nv = V.fresh("J_" + name)
                    m.locals[name] = nv
                else:
                    del m.locals[name]
        for name in set().union(*[set(s_.locals) for s_ in states]) - set(first.locals):
            m.locals.pop(name, None)
        for f in set().union(*[set(s_.heap) for s_ in states]):
            arrs = [s_.field_arr(f) for s_ in states]
            if not all(a.eq(arrs[0]) for a in arrs):
                hav = z3.Array("HJ!%s!%d" % (f, V._counter[0]), z3.IntSort(), z3.BoolSort() if f.startswith("?") else Val)
                V._counter[0] += 1
                if f.startswith("?"):
                    m.heap[f] = hav
                    continue
                # objects that existed when the try block was entered keep their value: one obligation per joined path
                base_arr = base.field_arr(f)
                r = z3.Int("r!join")
                refs_ = getattr(self, "frame_refs", lambda f_: [])(f)
                m.heap[f] = z3.Lambda([r], z3.If(z3.And(r < base.aptr, *[r != x_ for x_ in refs_]), z3.Select(base_arr, r),
                                                 z3.Select(hav, r)))
                fr = z3.Int("FREE!rjoin")
                for s_ in states:
                    a = s_.field_arr(f)
                    if a.eq(base_arr):
                        continue
                    goal = z3.Implies(z3.And(fr >= 0, fr < base.aptr, *[fr != x_ for x_ in refs_]),
                                      z3.Select(a, fr) == z3.Select(base_arr, fr))
                    s_.obligations.append(Obligation("%s/join-frame[%s]" % (self.env.fn.key, f), s_.hyps(), goal, s_.sig,
                                                     "join-frame", f, self.env.contract.props if self.env.contract else ()))
        for g in set().union(*[set(s_.ghost) for s_ in states]):
            vals_ = [self.env.trusted.ghost(s_, g) for s_ in states]
            if not all(a.eq(vals_[0]) for a in vals_):
                m.ghost[g] = V.fresh("GJ_" + g, self.env.trusted.ghost_sort(g))
            else:
                m.ghost[g] = vals_[0]
        grown = V.fresh("join_allocs", z3.IntSort())
        m.assume(grown >= 0)
        m.aptr = z3.simplify(base.aptr + grown)
        m.obligations = []
        seen = set()
        for s_ in states:
            for ob in s_.obligations:
                if id(ob) not in seen:
                    seen.add(id(ob))
                    m.obligations.append(ob)
        m.sig = list(base.sig) + ["join:%d-raising-paths" % len(states)]
        m.tags = {}
        exc = self.env_exc(m, BaseException)
        return m, exc

    def st_Try(self, st, stmt):
        results = []
        body_results = self.exec_block(st, stmt.body)
        raising = [(s, ctl) for s, ctl in body_results if ctl[0] == RAISE]
        catch_all = len(stmt.handlers) == 1 and stmt.handlers[0].type is None
        if catch_all and len(raising) > 3 and getattr(self.env.contract, "join_handlers", False):
            m, exc = self.merge_raising(st, [s for s, _ in raising])
            body_results = [(s, ctl) for s, ctl in body_results if ctl[0] != RAISE] + [(m, (RAISE, exc))]
        for s, ctl in body_results:
            if ctl[0] == RAISE:
                results.extend(self.handle(s, ctl[1], stmt.handlers))
            elif ctl[0] == NORMAL and stmt.orelse:
                results.extend(self.exec_block(s, stmt.orelse))
            else:
                results.append((s, ctl))
        if not stmt.finalbody:
            return results
        out = []
        for s, ctl in results:
            for s2, c2 in self.exec_block(s, stmt.finalbody):
                out.append((s2, ctl if c2[0] == NORMAL else c2))
        return out

    def exc_class_term(self, exc):
        return C.cls_of(Val.ref(exc))

    def handle(self, st, exc, handlers):
        out = []
        remaining = [(st, None)]
        for h in handlers:
            nxt = []
            for s, _ in remaining:
                if h.type is None:
                    cond = z3.BoolVal(True)
                else:
                    res = self.eval(s, h.type)
                    if len(res) != 1 or res[0][1][0] != "val" or not isinstance(res[0][1][1], Meta):
                        raise Unsupported("dynamic except clause")
                    t = res[0][1][1].py
                    ts = t if isinstance(t, tuple) else (t,)
                    cond = z3.Or(*[C.subclass(self.exc_class_term(exc), k) for k in ts])
                for s2, tag in self.fork(s, [(cond, "match"), (z3.Not(cond), "nomatch")],
                                         "except:" + (ast.unparse(h.type) if h.type is not None else "*")):
                    if tag == "match":
                        s3 = s2.copy()
                        if h.name:
                            s3.locals[h.name] = exc
                        s3.exc_stack.append(exc)
                        for s4, c4 in self.exec_block(s3, h.body):
                            s4.exc_stack = s4.exc_stack[:-1] if s4.exc_stack else []
                            out.append((s4, c4))
                    else:
                        nxt.append((s2, None))
            remaining = nxt
            if not remaining:
                break
        for s, _ in remaining:
            out.append((s, (RAISE, exc)))
        return out

    def st_With(self, st, stmt):
        if len(stmt.items) != 1:
            raise Unsupported("with: several items")
        item = stmt.items[0]

        def go(s, cm):
            return self.env.trusted.with_block(self, s, cm, item, stmt)
        return self.from_expr(self.eval(st, item.context_expr), go)

    # --- loops ----------------------------------------------------------------------------------------------
    def st_For(self, st, stmt):
        from . import loops
        return loops.exec_for(self, st, stmt)

    def st_While(self, st, stmt):
        from . import loops
        return loops.exec_while(self, st, stmt)

    def st_FunctionDef(self, st, stmt):
        raise Unsupported("nested function definition")

    def st_ClassDef(self, st, stmt):
        raise Unsupported("nested class definition")

    def st_Import(self, st, stmt):
        raise Unsupported("import inside a function")

    # ------------------------------------------------------------------------------------------------
    def run(self, st):
        """execute the function body from st; returns list of Outcome."""
        outs = []
        for s, ctl in self.exec_block(st, self.env.fn.body):
            if ctl[0] == NORMAL:
                outs.append(Outcome(s, RETURN, V.VNone))
            elif ctl[0] == RETURN:
                outs.append(Outcome(s, RETURN, ctl[1]))
            elif ctl[0] == RAISE:
                outs.append(Outcome(s, RAISE, ctl[1]))
            else:
                raise Unsupported("break/continue outside a loop")
        self.npaths = len(outs)
        return outs


class MissingContract(Exception):
    pass
