"""Property-level driver: which functions and obligations constitute a property, verdicts, evidence,
replay files, known findings, exit codes (DESIGN 2.10, 2.13)."""
import hashlib
import importlib
import json
import multiprocessing
import os
import sys
import time

HERE = os.path.dirname(os.path.dirname(os.path.abspath(__file__)))
# VERIF_OUT redirects what a run writes (seeded-change validation on a scratch copy must not overwrite the evidence of /repo)
_OUT = os.environ.get("VERIF_OUT") or HERE
REPLAYS = os.path.join(_OUT, "replays")
EVIDENCE = os.path.join(_OUT, "evidence")
KNOWN = os.path.join(HERE, "known_findings.json")

CONTRACT_MODULES = []     # filled by contracts/__init__.py


def load_all():
    from . import extract
    extract.setup_path()
    from . import classes as C
    C.load_known(["jsonrpclib.jsonrpc", "jsonrpclib.SimpleJSONRPCServer", "jsonrpclib.jsonclass",
                  "jsonrpclib.config", "jsonrpclib.threadpool", "jsonrpclib.history"])
    import contracts
    for m in contracts.MODULES:
        importlib.import_module("contracts." + m)
    from contracts import base
    return base


def functions_for(pid):
    from .contracts import REGISTRY
    out = []
    for key, con in REGISTRY.items():
        props = set(con.props)
        for _, _, p in con.ensures:
            props.update(p or ())
        if pid in props and not getattr(con, "assumed", None):
            out.append(key)
    for key in included_for(pid):
        if key in REGISTRY and key not in out and not getattr(REGISTRY[key], "assumed", None):
            out.append(key)
    return sorted(out)


def load_callgraph():
    try:
        with open(os.path.join(HERE, "callgraph.json")) as fh:
            return json.load(fh)
    except (OSError, ValueError):
        return {}


def included_for(pid):
    """functions a property also rests on, all of whose obligations count for it (props_meta `include`)"""
    from . import props_meta
    return list(props_meta.META.get(pid, {}).get("include", []))


def assumed_for(pid):
    """repository functions whose contract is used by callers but whose body is not verified (listed as assumptions)"""
    from .contracts import REGISTRY
    out = []
    for key, con in REGISTRY.items():
        props = set(con.props)
        for _, _, p in con.ensures:
            props.update(p or ())
        if pid in props and getattr(con, "assumed", None):
            out.append("%s: %s" % (key, con.assumed))
    return sorted(out)


def _cache_key(key):
    import hashlib, glob
    h = hashlib.sha256(key.encode())
    from . import extract
    files = sorted(glob.glob(os.path.join(HERE, "pyvc", "*.py")) + glob.glob(os.path.join(HERE, "contracts", "*.py")) +
                   glob.glob(os.path.join(extract.REPO, "jsonrpclib", "*.py")))
    for f in files:
        with open(f, "rb") as fh:
            h.update(fh.read())
    h.update(str(_verify_one.pid).encode())
    return h.hexdigest()[:24]


def _verify_one(key):
    import logging
    logging.disable(logging.CRITICAL)       # the repository logs warnings while counterexamples are replayed
    if os.environ.get("VERIF_CACHE") == "1":    # development aid only: never set by the registered commands
        cdir = os.path.join(HERE, ".cache")
        os.makedirs(cdir, exist_ok=True)
        cpath = os.path.join(cdir, _cache_key(key) + ".json")
        if os.path.exists(cpath):
            with open(cpath) as fh:
                return json.load(fh)
        out = _verify_one_nocache(key)
        with open(cpath, "w") as fh:
            json.dump(out, fh, default=str)
        return out
    return _verify_one_nocache(key)


def _verify_one_nocache(key):
    base = load_all()
    from . import verify, cex
    from .contracts import REGISTRY
    con = REGISTRY[key]
    mon = getattr(con, "monitor", None)
    r = verify.verify_function(key, base.TABLE, base.FIELDS, monitor=mon, cex_fn=cex.generic_cex)
    out = r.to_json()
    out["bounded"] = None
    if getattr(con, "corpus", None) is not None:
        from . import bounded
        try:
            env = verify.make_env(key, base.TABLE, base.FIELDS, mon)
            out["bounded"] = bounded.run_contract(env, con, pid=_verify_one.pid)
        except Exception as e:
            import traceback
            out["bounded"] = {"function": key, "evaluations": 0, "failures": [],
                              "error": "%s: %s" % (type(e).__name__, e), "trace": traceback.format_exc()[-800:]}
    return out


_verify_one.pid = None


def run_functions(keys, jobs=None):
    jobs = jobs or min(16, max(1, len(keys)))
    if len(keys) <= 1 or jobs == 1:
        return [_verify_one(k) for k in keys]
    ctx = multiprocessing.get_context("fork")
    with ctx.Pool(jobs) as pool:
        return pool.map(_verify_one, keys, chunksize=1)


def sig_hash(sig):
    return hashlib.sha256("|".join(sig).encode("utf-8")).hexdigest()[:12]


def load_known():
    if not os.path.exists(KNOWN):
        return {"findings": [], "fixed": []}
    with open(KNOWN) as fh:
        return json.load(fh)


def match_known(known, pid, ob, any_property=False):
    """a failing obligation / bounded failure is a known finding only if it is the listed obligation on the listed
    path (or with the listed observation / input): anything else of the same property is a fresh violation"""
    for f in known.get("findings", []):
        if f.get("property") != pid and not any_property:
            continue
        if f.get("obligation") != ob["name"]:
            continue
        need = f.get("path_contains", [])
        if not all(any(n in s for s in ob.get("sig_full", ob["sig"])) for n in need):
            continue
        oc = f.get("observed_contains")
        if oc is not None and oc not in str(ob.get("observed", "")):
            continue
        ic = f.get("input_contains")
        if ic is not None and not all(json.dumps(ob.get("input", {}), sort_keys=True, default=str).find(x) >= 0 for x in ic):
            continue
        return f
    return None


def check_property(pid, tier="quick", seed=0, extra_checks=None):
    """returns exit code; prints VIOLATION / KNOWN-FINDING / UNDECIDED lines; writes evidence."""
    t0 = time.time()
    load_all()
    keys = functions_for(pid)
    known = load_known()
    lines = []
    if not keys:
        print("FAULT property=%s no function under contract" % pid)
        return 3
    _verify_one.pid = pid
    os.environ["VERIF_TIER_ACTIVE"] = tier
    # A caller is verified against the contracts of its callees, so the property also rests on every callee honouring its
    # whole contract: the function set is closed under "contract applied at a call site".  The closure is seeded from
    # callgraph.json (a scheduling hint written by tools/sweep_all.py) and completed with what the run itself observes,
    # so a change that introduces a new callee is still followed.
    from .contracts import REGISTRY
    hint = load_callgraph()
    todo = list(keys)
    seen_keys = set(keys)
    used_as_callee = set()         # functions whose contract some function of the set applies: ALL their obligations count,
    while todo:                    # also when a few of their clauses are tagged with this property themselves
        k = todo.pop()
        for c_ in hint.get(k, []):
            if c_ in REGISTRY and not getattr(REGISTRY[c_], "assumed", None):
                used_as_callee.add(c_)
                if c_ not in seen_keys:
                    seen_keys.add(c_)
                    todo.append(c_)
    keys = sorted(seen_keys)
    results = run_functions(keys)
    for _round in range(6):
        more = set()
        for fr in results:
            for c_ in fr.get("callees", []):
                if c_ in REGISTRY and not getattr(REGISTRY[c_], "assumed", None):
                    used_as_callee.add(c_)
                    if c_ not in seen_keys:
                        more.add(c_)
        if not more:
            break
        seen_keys |= more
        results += run_functions(sorted(more))
    whole = set(included_for(pid)) | used_as_callee
    n_obl = n_dis = 0
    violations, undecided, faults, known_hits = [], [], [], []
    foreign = []
    samples = []
    fn_table = []
    solver_secs = 0.0
    backends = {}
    trusted_used = {}
    for fr in results:
        fn_table.append({"function": fr["function"], "sha256": fr["sha256"], "lines": fr["lines"],
                         "paths": fr["paths"], "status": fr["status"], "secs": fr["secs"]})
        trusted_used.update(fr.get("trusted_used", {}))
        if fr["status"] in ("unsupported", "missing-contract"):
            undecided.append((fr["function"], fr["message"]))
            continue
        if fr["status"] == "error":
            faults.append((fr["function"], fr["message"]))
            continue
        for ob in fr["obligations"]:
            if ob["kind"] == "post" and pid not in ob["props"] and fr["function"] not in whole:
                continue
            solver_secs += ob["secs"]
            backends[ob["backend"]] = backends.get(ob["backend"], 0) + 1
            if ob["status"] == "discharged":
                n_obl += 1
                n_dis += 1
                if len(samples) < 6:
                    samples.append({"obligation": ob["name"], "path": ob["sig"][-6:], "verdict": "unsat (discharged)",
                                    "backend": ob["backend"], "secs": ob["secs"]})
            elif ob["status"] == "refuted":
                kf = match_known(known, pid, ob)
                if kf is None and fr["function"] in whole and match_known(known, pid, ob, any_property=True) is not None:
                    # a callee's clause that fails under a finding listed for ANOTHER property: reported by that property's
                    # check, only recorded here
                    foreign.append({"obligation": ob["name"], "finding": match_known(known, pid, ob, any_property=True)["id"]})
                    continue
                if kf is not None:
                    known_hits.append((kf, ob))
                else:
                    n_obl += 1
                    violations.append((fr, ob))
            else:
                n_obl += 1
                undecided.append((ob["name"], "solver: %s" % ob["reason"]))
    # bounded stand-in: runtime contracts on the real functions over the enumerated corpus
    extra_report = []
    bounded_vios = []
    for fr in results:
        b = fr.get("bounded")
        if not b:
            continue
        rep = {k: v for k, v in b.items() if k != "failures"}
        rep["kind"] = "runtime contracts on the real function (bounded, not counted as proved)"
        rep["failures"] = len(b.get("failures", []))
        extra_report.append(rep)
        if b.get("error"):
            faults.append((fr["function"], "bounded harness: " + b["error"]))
        for fl in b.get("failures", []):
            if fl.get("harness_error"):
                faults.append((fr["function"], "bounded harness: " + fl["observed"]["value"]))
            else:
                bounded_vios.append((fr, fl))
    # extra (bounded / structural) checks registered by the property module
    if extra_checks:
        for chk in extra_checks:
            try:
                rep = chk(tier, seed)
            except Exception as e:
                import traceback
                faults.append(("bounded:%s" % getattr(chk, "__module__", "?"), "%s: %s %s" % (type(e).__name__, e, traceback.format_exc()[-500:])))
                continue
            fails = rep.pop("failures", [])
            rep["failures"] = len(fails)
            extra_report.append(rep)
            for fl in fails:
                bounded_vios.append(({"function": fl["name"].split("/")[0]}, {"clause": fl["name"], "input": fl.get("input"),
                                                                           "observed": fl.get("observed"), "_full_name": fl["name"]}))
    # report -------------------------------------------------------------------------------------------
    os.makedirs(os.path.join(REPLAYS, pid), exist_ok=True)
    for old_ in os.listdir(os.path.join(REPLAYS, pid)):      # replay files describe the latest run only
        if old_.endswith(".json"):
            os.unlink(os.path.join(REPLAYS, pid, old_))
    seen_known = set()
    for kf, ob in known_hits:
        if kf["id"] not in seen_known:
            seen_known.add(kf["id"])
            print("KNOWN-FINDING: property=%s %s" % (pid, kf["what"]))
    vio_lines = []
    reported = set()
    for fr, ob in violations:
        if fr is None:
            path = ob["replay"]
            vio_lines.append("VIOLATION property=%s replay=%s%s" % (pid, path, "" if ob.get("confirmed", True) else " no-failing-input-found"))
            continue
        h = sig_hash([ob["name"]] + ob["sig"])
        if (ob["name"], h) in reported:
            continue
        reported.add((ob["name"], h))
        path = os.path.join(REPLAYS, pid, "%s.json" % h)
        cexrec = ob.get("cex") or {}
        with open(path, "w") as fh:
            json.dump({"property": pid, "obligation": ob["name"], "function": fr["function"], "clause": ob["clause"],
                       "path_signature": ob["sig"], "solver": {"status": ob["status"], "backend": ob["backend"],
                                                              "secs": ob["secs"]},
                       "counterexample": cexrec}, fh, indent=1, default=str)
        confirmed = bool(cexrec.get("confirmed"))
        vio_lines.append("VIOLATION property=%s replay=%s%s" % (pid, path, "" if confirmed else " no-failing-input-found"))
    for fr, fl in bounded_vios:
        name = fl.get("_full_name") or "%s/post[%s]" % (fr["function"], fl["clause"])
        kf = match_known(known, pid, {"name": name, "sig": ["bounded"], "input": fl["input"], "observed": fl.get("observed")})
        if kf is not None:
            if kf["id"] not in seen_known:
                seen_known.add(kf["id"])
                print("KNOWN-FINDING: property=%s %s" % (pid, kf["what"]))
            continue
        h = sig_hash([name, json.dumps(fl["input"], sort_keys=True, default=str)])
        path = os.path.join(REPLAYS, pid, "bounded_%s.json" % h)
        with open(path, "w") as fh:
            json.dump({"property": pid, "obligation": name, "function": fr["function"], "clause": fl["clause"],
                       "stage": "bounded stand-in (runtime contract on the real function)",
                       "counterexample": {"inputs": fl["input"], "observed": fl["observed"], "replayed": True,
                                          "confirmed": True}}, fh, indent=1, default=str)
        if len([l for l in vio_lines if "bounded_" in l]) < 10:
            vio_lines.append("VIOLATION property=%s replay=%s" % (pid, path))
    # one line per failing obligation name is enough for the reader; keep all replay files
    printed = set()
    for line in vio_lines:
        print(line)
    for name, why in undecided:
        print("UNDECIDED property=%s obligation=%s reason=%s" % (pid, name, why.replace("\n", " ")[:300]))
    for name, why in faults:
        print("FAULT property=%s function=%s %s" % (pid, name, why.replace("\n", " ")[:600]))
    if n_obl == 0 and not known_hits and not undecided:
        print("FAULT property=%s zero obligations generated" % pid)
        faults.append(("-", "zero obligations"))
    wall = time.time() - t0
    from . import props_meta
    meta = props_meta.META.get(pid, {})
    ev = {
        "property_id": pid, "tier": tier, "seed": int(seed), "level": meta.get("level", "proof"),
        "coverage": {
            "obligations": n_obl, "discharged": n_dis,
            "checker_cmd": "bin/verif check %s --tier %s" % (pid, tier),
            "trusted_base": sorted(set(list(meta.get("trusted_base", [])) +
                                       ["%s: %s" % (k, v) for k, v in sorted(trusted_used.items())])),
            "functions_under_contract": fn_table,
            "backends": backends, "solver_secs": round(solver_secs, 3),
            "samples": samples,
            "known_findings": [{"id": kf["id"], "obligation": ob["name"], "what": kf["what"]} for kf, ob in known_hits],
            "undecided": [{"obligation": n, "reason": w[:300]} for n, w in undecided],
            "callee_obligations_under_findings_of_other_properties": foreign,
            "bounded_stand_ins": extra_report,
            "explanation": meta.get("explanation", ""),
            "not_decided_clauses": meta.get("not_decided", []),
        },
        "assumptions": list(meta.get("assumptions", [])) + assumed_for(pid),
        "wall_s": round(wall, 2),
        "violations": len(vio_lines),
    }
    os.makedirs(EVIDENCE, exist_ok=True)
    with open(os.path.join(EVIDENCE, "%s.json" % pid), "w") as fh:
        json.dump(ev, fh, indent=1, default=str)
    print("property=%s tier=%s functions=%d obligations=%d discharged=%d known=%d violations=%d undecided=%d wall=%.1fs"
          % (pid, tier, len(keys), n_obl, n_dis, len(seen_known), len(vio_lines), len(undecided), wall))
    if vio_lines:
        return 1
    if faults:
        return 3
    if undecided:
        return 2
    return 0
