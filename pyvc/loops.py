"""Loops are cut at invariants (DESIGN 2.6): established on entry, preserved by an arbitrary iteration
from a havocked state, used after exit.  The set of locals / heap fields / ghost variables havocked is
computed by a fixpoint over what the body writes."""
import ast
import z3

from . import vals as V
from .vals import Val
from . import ops
from .ops import Unsupported
from .symexec import (Meta, Obligation, NORMAL, RETURN, RAISE, BREAK, CONTINUE, BoundMeth)
from .trusted import View, RangeV, LazySeq


class LoopCtx(object):
    def __init__(self, ex, st, entry, i, n, seq, done=None, elem=None):
        self.ex, self.st, self.entry, self.i, self.n, self.seq, self.done, self.elem = ex, st, entry, i, n, seq, done, elem

    def v(self, name):
        return self.st.locals[name]

    def v0(self, name):
        return self.entry.locals[name]

    def field(self, obj, name):
        return self.st.read(Val.ref(obj), name)

    def field0(self, obj, name):
        return self.entry.read(Val.ref(obj), name)

    def ghost(self, name):
        return self.ex.env.trusted.ghost(self.st, name)

    def ghost0(self, name):
        return self.ex.env.trusted.ghost(self.entry, name)

    def now(self):
        """a view of the current state with the Ctx reading interface (old == new == the current heap and ghosts), so
        that object invariants written for pre/postconditions can be restated in loop invariants"""
        L = self

        class _Now(object):
            def old(self, obj, name):
                return L.field(obj, name)
            new = old

            def gold(self, name):
                return L.ghost(name)
            gnew = gold

            def old_arr(self, name):
                return L.st.field_arr(name)
            new_arr = old_arr
        return _Now()


def assigned_names(stmts):
    names = set()
    for n in ast.walk(ast.Module(body=list(stmts), type_ignores=[])):
        if isinstance(n, ast.Name) and isinstance(n.ctx, (ast.Store, ast.Del)):
            names.add(n.id)
        elif isinstance(n, ast.ExceptHandler) and n.name:
            names.add(n.name)
    return names


def havoc(ex, entry, modL, modH, modG, tag, mutates=()):
    """state at the head of an arbitrary iteration (or at loop exit).  Heap fields in `mutates` are havocked
    entirely; the others keep their value on objects that existed at loop entry (an `inv-frame` obligation at the
    end of the body justifies it) and are arbitrary on objects allocated by earlier iterations."""
    st = entry.copy()
    grown = V.fresh("loop_allocs", z3.IntSort())
    st.assume(grown >= 0)
    st.aptr = z3.simplify(entry.aptr + grown)
    for name in modL:
        if name in st.locals:
            old = st.locals[name]
            if isinstance(old, (Meta, BoundMeth, View, RangeV, LazySeq)):
                raise Unsupported("loop modifies the meta-valued local %s" % name)
            nv = V.fresh("L_" + name)
            t = st.typeof(old)
            st.locals[name] = nv
            st.settype(nv, t)
    objmut = {}
    for m_ in mutates:
        if isinstance(m_, tuple):
            objmut.setdefault(m_[0], []).append(m_[1])
    for f in modH:
        hav = z3.Array("HL!%s!%s" % (f, tag), z3.IntSort(), z3.BoolSort() if f.startswith("?") else Val)
        if f in mutates:
            st.heap[f] = hav
        else:
            r = z3.Int("r!loop")
            base = entry.field_arr(f)
            keep = r < entry.aptr
            for objfn in objmut.get(f, []):
                # the loop may write this field of this one pre-existing object
                keep = z3.And(keep, r != Val.ref(objfn(LoopCtx(ex, entry, entry, None, None, None))))
            for ref_ in getattr(ex, "frame_refs", lambda f_: [])(f):
                keep = z3.And(keep, r != ref_)
            st.heap[f] = z3.Lambda([r], z3.If(keep, z3.Select(base, r), z3.Select(hav, r)))
    for g in modG:
        st.ghost[g] = V.fresh("GL_" + g, ex.env.trusted.ghost_sort(g))
    return st


def discover(ex, head, results, modL, modH, modG):
    newL, newH, newG = set(), set(), set()
    for s, ctl in results:
        for name, v in s.locals.items():
            if name in head.locals:
                hv = head.locals[name]
                if z3.is_expr(v) and z3.is_expr(hv):
                    if not v.eq(hv):
                        newL.add(name)
                elif v is not hv:
                    newL.add(name)
        for f, arr in s.heap.items():
            base = head.heap.get(f, s.heap0.get(f))
            if base is None or not arr.eq(base):
                newH.add(f)
        for g, val in s.ghost.items():
            base = head.ghost.get(g)
            if base is None:
                # ghost first touched inside the body: its initial constant is shared, compare to it
                base = z3.Const("G0!" + g, ex.env.trusted.ghost_sort(g))
            if not val.eq(base):
                newG.add(g)
    return newL - modL, newH - modH, newG - modG


def oblige(ex, st, kind, label, goal, extra=None):
    name = "%s/%s[%s]" % (ex.env.fn.key, kind, label)
    st.obligations.append(Obligation(name, st.hyps(), goal, st.sig, kind, label, ex.env.contract.props if ex.env.contract else (),
                                     extra))


def loop_frame(ex, s, entry, head, modH, mutates, ordinal):
    """an iteration does not write the havocked fields on objects that existed at loop entry"""
    objmut = {}
    for m_ in mutates:
        if isinstance(m_, tuple):
            objmut.setdefault(m_[0], []).append(m_[1])
    for f in sorted(modH):
        if f in mutates or f.startswith("?"):
            continue
        r = z3.Int("r!lf")
        pre = [r < entry.aptr, r >= 0]
        for objfn in objmut.get(f, []):
            pre.append(r != Val.ref(objfn(LoopCtx(ex, entry, entry, None, None, None))))
        for ref_ in getattr(ex, "frame_refs", lambda f_: [])(f):
            pre.append(r != ref_)
        goal = z3.Implies(z3.And(*pre), z3.Select(s.field_arr(f), r) == z3.Select(head.field_arr(f), r))
        oblige(ex, s, "inv-frame", "%s#%d" % (f, ordinal), goal)


def _spec(ex, stmt):
    ordinal = ex.loop_ordinals[id(stmt)]
    con = ex.env.contract
    return ordinal, (con.loops.get(ordinal) if con is not None else None)


def exec_for(ex, st, stmt):
    def go(s, it):
        if isinstance(it, Meta) and isinstance(it.py, (tuple, list)):
            return unrolled(ex, s, stmt, [ex.meta_or_val(x) for x in it.py])
        it = ex.lift(it)
        return symbolic_for(ex, s, stmt, it)
    return ex.from_expr(ex.eval(st, stmt.iter), go)


def unrolled(ex, st, stmt, items):
    results = [(st, (NORMAL, None))]
    broke = []
    for item in items:
        nxt = []
        for s, ctl in results:
            if ctl[0] != NORMAL:
                nxt.append((s, ctl))
                continue
            for s1, c1 in ex.assign(s, stmt.target, item):
                if c1[0] != NORMAL:
                    nxt.append((s1, c1))
                    continue
                for s2, c2 in ex.exec_block(s1, stmt.body):
                    if c2[0] == BREAK:
                        broke.append((s2, (NORMAL, None)))
                    elif c2[0] == CONTINUE:
                        nxt.append((s2, (NORMAL, None)))
                    else:
                        nxt.append((s2, c2))
        results = nxt
    out = []
    for s, ctl in results:
        if ctl[0] == NORMAL and stmt.orelse:
            out.extend(ex.exec_block(s, stmt.orelse))
        else:
            out.append((s, ctl))
    return out + broke


def symbolic_for(ex, st, stmt, it):
    ordinal, spec = _spec(ex, stmt)
    inv = spec.invariant if spec is not None and spec.invariant is not None else None
    mutates = set(getattr(spec, "mutates", ()) or ()) if spec is not None else set()
    tag = "%d_%d" % (ordinal, V._counter[0])
    entry = st.copy()
    dict_mode = isinstance(it, View) and it.kind == "items"
    if isinstance(it, View) and not dict_mode:
        raise Unsupported("for over dict keys/values view")
    if isinstance(it, LazySeq):
        it = it.lst
    if isinstance(it, RangeV):
        n = it.n
        seq = None
    elif dict_mode:
        n = Val.dlen(it.d)
        seq = it.d
    else:
        okseq = z3.Or(V.is_list(it), V.is_tuple(it), V.is_set(it))
        if ex.feasible(entry, z3.Not(okseq)):
            raise Unsupported("for over a value that may not be a list/tuple/set (line %d)" % stmt.lineno)
        n = V.seq_len(it)
        seq = it
    entry.assume(n >= 0)

    def mkctx(s, i, done=None, elem=None):
        return LoopCtx(ex, s, entry, i, n, seq, done, elem)

    # 1. establishment
    zero_done = V.EMPTY_HAS if dict_mode else None
    if inv is not None:
        oblige(ex, entry, "inv-entry", "%s#%d" % (spec.label, ordinal), inv(mkctx(entry, z3.IntVal(0), zero_done)))
    # 2. arbitrary iteration, with the havoc set found by fixpoint
    modL = assigned_names(stmt.body) | assigned_names([ast.Expr(value=stmt.target)] if False else []) \
        | {n_.id for n_ in ast.walk(stmt.target) if isinstance(n_, ast.Name)}
    modH, modG = set(), set()
    for _round in range(6):
        head = havoc(ex, entry, modL, modH, modG, tag + "_%d" % _round, mutates)
        i = V.fresh("i", z3.IntSort())
        done = V.fresh("done", V.HasArr) if dict_mode else None
        if dict_mode:
            k = V.fresh("k", V.Key)
            head.assume(z3.And(V.dict_has(it.d, k), z3.Not(z3.Select(done, k))))
            elem = V.mk_tuple([ops.key_to_val(k), V.dict_get(it.d, k)])
            head.assume(ops.to_key(ops.key_to_val(k)) == k)
            ex.component(head, it.d, V.dict_get(it.d, k))
            next_done = z3.Store(done, k, True)
            head.assume(z3.And(i >= 0, i < n))
        else:
            head.assume(z3.And(i >= 0, i < n))
            elem = V.VInt(i) if seq is None else z3.Select(V.seq_at(seq), i)
            if seq is not None:
                head.assume(ops._member(elem, seq))
                ex.component(head, seq, elem)
                et = entry.elemtypes.get(seq.get_id())
                if et is not None:
                    from . import classes as C_
                    head.assume(z3.And(V.is_obj(elem), Val.ref(elem) >= 0, C_.subclass(C_.cls_of(Val.ref(elem)), et)))
                    head.settype(elem, et)
            next_done = None
        if inv is not None:
            from . import solve as _solve
            head.assume(_solve.close_free(inv(mkctx(head, i, done, elem))))
        if not ex.feasible(head):
            body_results = []
            break
        body_results = []
        for s1, c1 in ex.assign(head, stmt.target, elem):
            if c1[0] != NORMAL:
                body_results.append((s1, c1))
            else:
                body_results.extend(ex.exec_block(s1, stmt.body))
        dL, dH, dG = discover(ex, head, body_results, modL, modH, modG)
        if not (dL or dH or dG):
            break
        modL |= dL
        modH |= dH
        modG |= dG
    else:
        raise Unsupported("loop havoc set did not stabilise")
    out = []
    for s, ctl in body_results:
        if ctl[0] in (NORMAL, CONTINUE):
            if inv is not None:
                oblige(ex, s, "inv-preserve", "%s#%d" % (spec.label, ordinal), inv(mkctx(s, i + 1, next_done)))
            loop_frame(ex, s, entry, head, modH, mutates, ordinal)
            # obligations collected on this path must survive although the path itself ends here
            ex.dead_paths.append(s)
        elif ctl[0] == BREAK:
            out.append((s, (NORMAL, None)))
        else:
            out.append((s, ctl))
    # 3. exit
    ex_st = havoc(ex, entry, modL, modH, modG, tag + "_x", mutates)
    if inv is not None:
        from . import solve as _solve
        ex_st.assume(_solve.close_free(inv(mkctx(ex_st, n, Val.dhas(it.d) if dict_mode else None))))
    ex_st.sig.append("loop#%d:exit" % ordinal)
    if ex.feasible(ex_st):
        if stmt.orelse:
            out.extend(ex.exec_block(ex_st, stmt.orelse))
        else:
            out.append((ex_st, (NORMAL, None)))
    return out


def exec_while(ex, st, stmt):
    ordinal, spec = _spec(ex, stmt)
    inv = spec.invariant if spec is not None and spec.invariant is not None else None
    mutates = set(getattr(spec, "mutates", ()) or ()) if spec is not None else set()
    tag = "%d_%d" % (ordinal, V._counter[0])
    entry = st.copy()

    def mkctx(s):
        return LoopCtx(ex, s, entry, None, None, None)
    if inv is not None:
        oblige(ex, entry, "inv-entry", "%s#%d" % (spec.label, ordinal), inv(mkctx(entry)))
    modL, modH, modG = assigned_names(stmt.body), set(), set()
    exits = []
    for _round in range(6):
        head = havoc(ex, entry, modL, modH, modG, tag + "_%d" % _round, mutates)
        if inv is not None:
            from . import solve as _solve
            head.assume(_solve.close_free(inv(mkctx(head))))
        body_results, exits = [], []
        for s0, oc in ex.eval(head, stmt.test):
            if oc[0] == "raise":
                body_results.append((s0, (RAISE, oc[1])))
                continue
            cond = ex.truthy(ex.lift(oc[1]))
            for s1, tagk in ex.fork(s0, [(cond, "T"), (z3.Not(cond), "F")], "while:" + ast.unparse(stmt.test)):
                if tagk == "T":
                    body_results.extend(ex.exec_block(s1, stmt.body))
                else:
                    exits.append(s1)
        dL, dH, dG = discover(ex, head, body_results + [(s, (NORMAL, None)) for s in exits], modL, modH, modG)
        if not (dL or dH or dG):
            break
        modL |= dL
        modH |= dH
        modG |= dG
    else:
        raise Unsupported("loop havoc set did not stabilise")
    out = []
    variant = getattr(spec, "variant", None) if spec is not None else None
    v_head = variant(mkctx(head)) if variant is not None else None
    for s, ctl in body_results:
        if ctl[0] in (NORMAL, CONTINUE):
            if inv is not None:
                oblige(ex, s, "inv-preserve", "%s#%d" % (spec.label, ordinal), inv(mkctx(s)))
            if variant is not None:
                oblige(ex, s, "inv-variant", "%s#%d" % (spec.label, ordinal), z3.And(v_head >= 0, variant(mkctx(s)) < v_head))
            loop_frame(ex, s, entry, head, modH, mutates, ordinal)
            ex.dead_paths.append(s)
        elif ctl[0] == BREAK:
            out.append((s, (NORMAL, None)))
        else:
            out.append((s, ctl))
    for s in exits:
        s.sig.append("loop#%d:exit" % ordinal)
        if stmt.orelse:
            out.extend(ex.exec_block(s, stmt.orelse))
        else:
            out.append((s, (NORMAL, None)))
    return out
