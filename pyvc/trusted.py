"""Trusted base (DESIGN section 3): assumed contracts of everything that is not repository code, and
the engine's own structural rules (comprehension map rule, with-blocks, environment callables).

Every entry registers a line in TRUSTED_USED when it is exercised, which ends up in the evidence."""
import ast
import z3

from . import vals as V
from .vals import Val
from . import ops
from .ops import Unsupported
from . import classes as C

TRUSTED_USED = {}


def used(key, text):
    TRUSTED_USED[key] = text


class View(object):
    """dict view (keys/items/values) or other lazily iterated value"""
    def __init__(self, kind, d):
        self.kind, self.d = kind, d


class RangeV(object):
    def __init__(self, n):
        self.n = n


class KeysTuple(object):
    """tuple(d) of a dict whose keys are types (config.serialize_handlers)"""
    def __init__(self, d):
        self.d = d


class TypeSet(object):
    """a tuple of classes partly known statically (meta) and partly the keys of a symbolic dict"""
    def __init__(self, meta, d):
        self.meta, self.d = tuple(meta), d


class LazySeq(object):
    """result of a generator expression: behaves like the list it would produce"""
    def __init__(self, lst):
        self.lst = lst


class Fields(object):
    """static knowledge about instance attributes: declared class of a field, class constants,
    attributes that may be missing"""
    def __init__(self):
        self.table = {}

    def declare(self, pycls_name, attr, **info):
        self.table[(pycls_name, attr)] = info

    def lookup(self, pycls, attr):
        if pycls is None:
            return None
        for k in pycls.__mro__:
            info = self.table.get((k.__module__ + "." + k.__qualname__, attr))
            if info is not None:
                return info
        return None

    def resolve(self, t):
        if isinstance(t, str):
            import importlib
            mod, _, name = t.rpartition(".")
            obj = importlib.import_module(mod)
            for p in name.split("."):
                obj = getattr(obj, p)
            return obj
        return t


GHOST_SORTS = {}


def declare_ghost(name, sort=None, init=None):
    GHOST_SORTS[name] = (sort if sort is not None else Val, init)


class Table(object):
    def __init__(self):
        self.handlers = {}
        self.with_handlers = {}
        self.default_objects = {}

    def register(self, key, handler=None):
        if handler is None:
            def deco(h):
                self.handlers[key] = h
                return h
            return deco
        self.handlers[key] = handler

    def lookup(self, key):
        h = self.handlers.get(key)
        if h is not None:
            used(key, (h.__doc__ or "").strip())
        return h

    # ghost ----------------------------------------------------------------------------------------------
    def ghost_sort(self, name):
        return GHOST_SORTS.get(name, (Val, None))[0]

    def ghost(self, st, name):
        if name not in st.ghost:
            sort, init = GHOST_SORTS.get(name, (Val, None))
            st.ghost[name] = z3.Const("G0!" + name, sort)
        return st.ghost[name]

    def ghost_append(self, st, name, item):
        g = self.ghost(st, name)
        st.assume(V.is_list(g))
        n = Val.llen(g)
        st.assume(n >= 0)
        st.ghost[name] = V.VList(n + 1, z3.Store(Val.lat(g), n, item))

    # default argument objects ------------------------------------------------------------------------------
    def default_object(self, ex, d):
        from .symexec import Meta
        h = self.default_objects.get(id(d))
        if h is not None:
            return h(ex, d)
        return Meta(d)

    # str() ---------------------------------------------------------------------------------------------------
    def str_image(self, ex, st, v):
        from .symexec import Meta
        v = ex.lift(v)
        if isinstance(v, Meta):
            return z3.StringVal(str(v.py))
        return V.str_image(v)

    # environment callables -----------------------------------------------------------------------------------
    def env_call(self, ex, st, f, args, kwargs, text):
        """trusted: a callable supplied by the environment (registered function, dispatch function,
        callback, task): appends (f, args, kwargs) to ghost call_log; returns any value or raises any
        Exception; touches no heap field of the repository's objects."""
        from .symexec import Star
        used("environment callable", self.env_call.__doc__.strip())
        pos = []
        star = None
        for a in args:
            if isinstance(a, Star):
                if star is not None or pos:
                    raise Unsupported("mixed positional and star arguments to an environment callable")
                star = a.val
            else:
                pos.append(ex.lift(a))
        if star is None:
            argv = V.mk_tuple(pos)
        else:
            argv = star
        kw = kwargs.get("**", None)
        if kw is None:
            kw = V.empty_dict()
            for k, v in kwargs.items():
                kw = V.VDict(Val.dlen(kw) + 1, z3.Store(Val.dhas(kw), V.KS(z3.StringVal(k)), True),
                             z3.Store(Val.dget(kw), V.KS(z3.StringVal(k)), ex.lift(v)))
        hook = getattr(ex.env, "env_call_hook", None)
        if hook is not None:
            return hook(ex, st, f, argv, kw, text)
        if ex.env.fn.modname == "jsonrpclib.jsonclass":
            return self.xlate_call(ex, st, f, argv, kw, text)
        return self.default_env_call(ex, st, f, argv, kw, text)

    def default_env_call(self, ex, st, f, argv, kw, text, base=Exception):
        st = st.copy()
        # a *args of a non-iterable / **kwargs of a non-mapping raises TypeError before the call
        self.ghost_append(st, "call_log", V.mk_tuple([f, argv, kw]))
        ret = V.fresh("envret")
        s_ok = st.copy()
        s_ok.sig.append("env:%s:ret" % text)
        s_ex = st.copy()
        s_ex.sig.append("env:%s:raise" % text)
        e = ex.env_exc(s_ex, base)
        return [(s_ok, ("val", ret)), (s_ex, ("raise", e))]

    # iteration helpers -----------------------------------------------------------------------------------------
    def to_list(self, ex, st, v, mk):
        if isinstance(v, LazySeq):
            lst = v.lst
            return [(st, ("val", mk(Val.llen(lst), Val.lat(lst))))]
        if isinstance(v, View):
            d = v.d
            st = st.copy()
            r = V.fresh("viewlist")
            st.assume(z3.And(V.is_list(r), Val.llen(r) == Val.dlen(d)))
            if v.kind == "keys":
                # every element is a key of d, and (used by the single-entry case) when len == 1 the
                # only element is the only key
                j = z3.Int("j!vk")
                elt = z3.Select(Val.lat(r), j)
                st.assume(z3.ForAll([j], z3.Implies(z3.And(j >= 0, j < Val.llen(r)),
                                                    z3.And(ops.hashable(elt), V.dict_has(d, ops.to_key(elt)))),
                                    patterns=[z3.Select(Val.lat(r), j)]))
            used("list(dict view)", "list(d.keys()) has len(d) elements, each a key of d")
            res = mk(Val.llen(r), Val.lat(r))
            return [(st, ("val", res))]
        if isinstance(v, RangeV):
            raise Unsupported("list(range)")
        alts = [(V.is_list(v), ("val", mk(Val.llen(v), Val.lat(v)))),
                (V.is_tuple(v), ("val", mk(Val.tlen(v), Val.tat(v)))),
                (V.is_set(v), ("val", mk(Val.slen(v), Val.sat(v)))),
                (V.is_dict(v), ("unsupported", "list(dict)")),
                (z3.Or(V.is_str(v), V.is_bytes(v)), ("unsupported", "list(str)")),
                (z3.Or(V.is_none(v), V.is_bool(v), V.is_int(v), V.is_float(v), V.is_obj(v), V.is_fun(v),
                       V.is_type(v)), ("raise", TypeError))]
        return ex.apply_op(st, alts, "to_list")

    def dict_ctor(self, ex, st, args, kwargs, text):
        raise Unsupported("dict(...) with arguments")

    def update_method(self, ex, st, c, args, kwargs, node):
        """d.update(other dict): keys of both, values of `other` win; set.update(iterable of hashables): union"""
        from . import builtins_model as B
        used("dict.update / set.update", self.update_method.__doc__.strip())
        o = ex.lift(args[0])
        k = z3.Const("k!upd", V.Key)
        n = V.fresh("updlen", z3.IntSort())
        newd = V.VDict(n, z3.Lambda([k], z3.Or(z3.Select(Val.dhas(c), k), z3.Select(Val.dhas(o), k))),
                       z3.Lambda([k], z3.If(z3.Select(Val.dhas(o), k), z3.Select(Val.dget(o), k), z3.Select(Val.dget(c), k))))
        alts = [(z3.And(V.is_dict(c), V.is_dict(o)), ("val", newd)),
                (z3.And(V.is_set(c), z3.Or(V.is_list(o), V.is_tuple(o), V.is_set(o), V.is_dict(o))), ("val", ("setupd",))),
                # iterables of key/value pairs are not modelled: any non-dict argument is rejected
                (z3.And(V.is_dict(c), z3.Not(V.is_dict(o))), ("raise", TypeError)),
                (z3.And(V.is_set(c), z3.Not(z3.Or(V.is_list(o), V.is_tuple(o), V.is_set(o), V.is_dict(o)))), ("raise", TypeError)),
                (z3.Not(z3.Or(V.is_dict(c), V.is_set(c))), ("raise", AttributeError))]
        out = []
        for s2, payload in ex.fork(st, alts, "update"):
            if payload[0] == "val" and isinstance(payload[1], tuple):
                s2 = s2.copy()
                ns = V.fresh("setupd")
                s2.assume(z3.And(V.is_set(ns), Val.slen(ns) >= Val.slen(c), z3.Not(Val.frozen(ns))))
                payload = ("val", ns)
            elif payload[0] == "val":
                s2 = s2.copy()
                s2.assume(z3.And(n >= Val.dlen(c), n >= Val.dlen(o), n <= Val.dlen(c) + Val.dlen(o)))
            s3, oc = ex.raise_alt(s2, payload)
            if oc[0] == "raise":
                out.append((s3, oc))
                continue
            for s4, ctl in B.writeback(ex, s3, node, oc[1]):
                out.append((s4, ("val", V.VNone) if ctl[0] != "raise" else ("raise", ctl[1])))
        return out

    def difference_update(self, ex, st, c, args, kwargs, node):
        """s.difference_update(xs): the members of s that are not members of xs (membership by ==)"""
        self.difference_update.__func__.__doc__ = self.difference_update.__doc__ or ""
        from . import builtins_model as B
        used("set.difference_update", self.difference_update.__doc__.strip())
        xs = ex.lift(args[0])
        st = st.copy()
        ns = V.fresh("setdiff")
        x = z3.Const("x!sd", Val)
        st.assume(z3.And(V.is_set(ns), Val.slen(ns) >= 0, Val.slen(ns) <= Val.slen(c), Val.frozen(ns) == Val.frozen(c)))
        st.assume(z3.ForAll([x], ops._member(x, ns) == z3.And(ops._member(x, c), z3.Not(ops._member(x, xs))),
                            patterns=[ops._member(x, ns)]))
        alts = [(z3.And(V.is_set(c), z3.Or(V.is_list(xs), V.is_tuple(xs), V.is_set(xs))), ("val", ns)),
                (z3.Not(z3.And(V.is_set(c), z3.Or(V.is_list(xs), V.is_tuple(xs), V.is_set(xs)))),
                 ("unsupported", "difference_update on these operands"))]
        out = []
        for s3, oc in ex.apply_op(st, alts, "difference_update"):
            if oc[0] == "raise":
                out.append((s3, oc))
                continue
            for s4, ctl in B.writeback(ex, s3, node, oc[1]):
                out.append((s4, ("val", V.VNone) if ctl[0] != "raise" else ("raise", ctl[1])))
        return out

    def list_remove(self, ex, st, c, args, kwargs, node):
        """l.remove(x): drops one element equal to x (any matching index: over-approximates 'the first');
        ValueError when no element equals x"""
        from . import builtins_model as B
        used("list.remove", self.list_remove.__doc__.strip())
        x = ex.lift(args[0])
        st = st.copy()
        i = V.fresh("rm_idx", z3.IntSort())
        n = Val.llen(c)
        j = z3.Int("j!rm")
        newl = V.VList(n - 1, z3.Lambda([j], z3.If(j < i, z3.Select(Val.lat(c), j), z3.Select(Val.lat(c), j + 1))))
        found = z3.And(i >= 0, i < n, ops.py_eq(z3.Select(Val.lat(c), i), x))
        alts = [(z3.And(V.is_list(c), found), ("val", newl)),
                (z3.And(V.is_list(c), z3.Not(ops.member_unfold(x, c))), ("raise", ValueError)),
                (z3.Not(V.is_list(c)), ("unsupported", "remove on a non-list"))]
        out = []
        for s3, oc in ex.apply_op(st, alts, "list.remove"):
            if oc[0] == "raise":
                out.append((s3, oc))
                continue
            for s4, ctl in B.writeback(ex, s3, node, oc[1]):
                out.append((s4, ("val", V.VNone) if ctl[0] != "raise" else ("raise", ctl[1])))
        return out

    def opaque_str_method(self, ex, st, s_, name, args):
        raise Unsupported("str.%s" % name)

    def str_split(self, ex, st, s_, args):
        raise Unsupported("str.split")

    def str_join(self, ex, st, s_, args):
        raise Unsupported("str.join")

    def str_encode(self, ex, st, s_, args):
        raise Unsupported("str.encode")

    def hasattr_(self, ex, st, obj, name, text):
        raise Unsupported("hasattr")

    def getattr_dyn(self, ex, st, args, text):
        raise Unsupported("getattr()")

    def setattr_dyn(self, ex, st, args, text):
        raise Unsupported("setattr()")

    def print_(self, ex, st, args, kwargs, text):
        raise Unsupported("print")

    def reify_meta(self, ex, st, v):
        raise Unsupported("storing %r in the heap" % (v,))

    def reify_bound(self, ex, st, v):
        raise Unsupported("storing a bound method in the heap")

    def yield_point(self, ex, st, e):
        raise Unsupported("yield")

    def with_block(self, ex, st, cm, item, stmt):
        raise Unsupported("with")

    # comprehension: the map rule ---------------------------------------------------------------------------------
    def comprehension(self, ex, st, e, kind):
        from .symexec import Meta
        if len(e.generators) != 1 or e.generators[0].ifs or e.generators[0].is_async:
            raise Unsupported("comprehension with several generators or conditions")
        gen = e.generators[0]

        def go(s, it):
            return self.map_rule(ex, s, e, kind, gen, it)
        return ex.bind(ex.eval(st, gen.iter), go)

    def map_rule(self, ex, st, e, kind, gen, it):
        """[body(x) for x in xs]: len(result) == len(xs) and result[j] == body(xs[j]) for every j, the
        body being executed once on a symbolic element; the comprehension raises iff the body raises for
        some element (the first such one)."""
        from .symexec import Meta
        used("comprehension map rule", self.map_rule.__doc__.strip())
        if not (isinstance(it, Meta) and isinstance(it.py, (tuple, list))):
            it = ex.lift(it)
        mark = V._counter[0]
        st = st.copy()
        j = V.fresh("j", z3.IntSort())
        is_dict_items = isinstance(it, View) and it.kind == "items"
        if isinstance(it, Meta):
            # a python-level sequence known at verification time: unrolled
            results = [(st, ("val", []))]
            for item in it.py:
                def step(s, acc, item=item):
                    out = []
                    for s1, ctl in ex.assign(s, gen.target, ex.meta_or_val(item)):
                        if ctl[0] != "normal":
                            raise Unsupported("comprehension target")
                        out.extend(ex.bind(ex.eval(s1, e.elt), lambda s2, v: [(s2, ("val", acc + [ex.lift(v)]))]))
                    return out
                results = ex.bind(results, step)
            if kind == "dict":
                raise Unsupported("dict comprehension over a meta sequence")
            mk = (lambda lst: LazySeq(V.mk_list(lst))) if kind == "gen" else V.mk_list
            return ex.bind(results, lambda s, vals: [(s, ("val", mk(vals)))])
        if is_dict_items:
            d = it.d
            k = V.fresh("k", V.Key)
            elem = V.mk_tuple([ops.key_to_val(k), V.dict_get(d, k)])
            dom = V.dict_has(d, k)
            n = Val.dlen(d)
            bound_var = k
            st.assume(ops.to_key(ops.key_to_val(k)) == k)       # the value iteration yields for a key maps back to it
        elif isinstance(it, View):
            raise Unsupported("comprehension over dict keys/values")
        else:
            okseq = z3.Or(V.is_list(it), V.is_tuple(it), V.is_set(it))
            if not ex.feasible(st, okseq):
                raise Unsupported("comprehension over a non-sequence")
            if ex.feasible(st, z3.Not(okseq)):
                raise Unsupported("comprehension over a value that may not be a list/tuple/set")
            n = V.seq_len(it)
            elem = z3.Select(V.seq_at(it), j)
            dom = z3.And(j >= 0, j < n)
            bound_var = j
        st.assume(n >= 0)
        body_st = st.copy()
        body_st.assume(dom)
        et = st.elemtypes.get(it.get_id()) if (z3.is_expr(it) and not is_dict_items) else None
        if et is not None:
            # declared element class of the list (FIELDS elem_type): the element is an instance of it
            from . import classes as C_
            body_st.assume(z3.And(V.is_obj(elem), Val.ref(elem) >= 0, C_.subclass(C_.cls_of(Val.ref(elem)), et)))
            body_st.settype(elem, et)
        # earlier elements may have allocated objects and changed reference-indexed ghost arrays: the body is run from
        # an arbitrary such state; that every run keeps the entries of pre-existing references is an obligation
        # (`map-frame`), which is what justifies keeping them across the whole map
        grown = V.fresh("map_allocs", z3.IntSort())
        body_st.assume(grown >= 0)
        aptr_before = st.aptr
        body_st.aptr = z3.simplify(st.aptr + grown)
        mid_ghost = {}
        for g, (sort, _) in GHOST_SORTS.items():
            if isinstance(sort, z3.ArraySortRef) and sort.domain() == z3.IntSort():
                cur = self.ghost(body_st, g)
                mid = V.fresh("Gmid_" + g, sort)
                r_ = z3.Int("r!mid")
                body_st.assume(z3.ForAll([r_], z3.Implies(r_ < aptr_before, z3.Select(mid, r_) == z3.Select(cur, r_)),
                                         patterns=[z3.Select(mid, r_)]))
                body_st.ghost[g] = mid
                mid_ghost[g] = (cur, mid)
        heap_before = dict(body_st.heap)
        ghost_before = dict(body_st.ghost)
        base_len = len(body_st.pc)
        results = []
        for s1, ctl in ex.assign(body_st, gen.target, elem):
            if ctl[0] != "normal":
                raise Unsupported("comprehension target unpacking may fail")
            if kind == "dict":
                results.extend(ex.eval_seq(s1, [e.key, e.value]))
            else:
                results.extend(ex.eval(s1, e.elt))
        # reference-indexed ghosts no path of the body touched are put back as they were
        for g, (cur, mid) in list(mid_ghost.items()):
            if all(s2.ghost.get(g) is not None and s2.ghost[g].eq(mid) for s2, _ in results):
                for s2, _ in results:
                    s2.ghost[g] = cur
                ghost_before[g] = cur
                del mid_ghost[g]
        vals, raises = [], []
        changed_ghost = set()
        for s2, oc in results:
            for f, arr in s2.heap.items():
                if f in heap_before and not arr.eq(heap_before[f]) or (f not in heap_before and not arr.eq(s2.heap0.get(f, arr))):
                    raise Unsupported("comprehension body writes heap field %s" % f)
            for g, val in s2.ghost.items():
                base = ghost_before.get(g)
                if base is None:
                    base = z3.Const("G0!" + g, self.ghost_sort(g))
                if not val.eq(base):
                    changed_ghost.add(g)
            guard = z3.And(*s2.pc[base_len:]) if len(s2.pc) > base_len else z3.BoolVal(True)
            if oc[0] == "raise":
                raises.append((guard, oc[1], s2))
            else:
                vals.append((guard, oc[1], s2))
            st.obligations.extend(o for o in s2.obligations if o not in st.obligations)
        # fresh symbols created in the body depend on the element: make them functions of the bound var
        keep = [bound_var]

        def close(term):
            consts = _fresh_consts(term, mark, exclude=tuple(keep))
            subs = []
            for cst in consts:
                fn = z3.Function(cst.decl().name() + "@", bound_var.sort(), cst.sort())
                subs.append((cst, fn(bound_var)))
            return z3.substitute(term, *subs) if subs else term

        # ghost state the body may change (logs of calls made for each element) is havocked after the map: the
        # rule says nothing about it
        from .symexec import Obligation
        for g in sorted(changed_ghost):
            hav = V.fresh("G_after_map_" + g, self.ghost_sort(g))
            if g in mid_ghost:
                cur, mid = mid_ghost[g]
                for s2, oc in results:
                    endv = s2.ghost.get(g, mid)
                    fr = z3.Int("FREE!rmap")
                    goal = z3.Implies(fr < body_st.aptr, z3.Select(endv, fr) == z3.Select(mid, fr))
                    st.obligations.append(Obligation("%s/map-frame[%s]" % (ex.env.fn.key, g), s2.hyps(), goal, s2.sig,
                                                     "map-frame", g, ex.env.contract.props if ex.env.contract else ()))
                r_ = z3.Int("r!amap")
                st.ghost[g] = z3.Lambda([r_], z3.If(r_ < aptr_before, z3.Select(cur, r_), z3.Select(hav, r_)))
            else:
                st.ghost[g] = hav
        grown2 = V.fresh("map_allocs_total", z3.IntSort())
        st.assume(grown2 >= 0)
        st.aptr = z3.simplify(st.aptr + grown2)
        out = []
        if kind == "dict":
            newget = V.fresh("mapget", V.GetArr)
            keep.append(newget)
            facts = []
            for guard, kv, s2 in vals:
                keyv, valv = ex.lift(kv[0]), ex.lift(kv[1])
                # only identity key expressions are supported
                if not z3.is_true(z3.simplify(ops.to_key(keyv) == k)):
                    chk = z3.Solver()
                    chk.add(*s2.pc)
                    chk.add(ops.to_key(keyv) != k)
                    if chk.check() != z3.unsat:
                        raise Unsupported("dict comprehension with a computed key")
                facts.append(z3.And(guard, z3.Select(newget, k) == valv))
            # for every key some value path of the body was taken: its whole path condition (including what the
            # contracts of the calls it made guarantee) holds for that key, and it produced the stored value
            body = close(z3.Implies(dom, z3.Or(*facts))) if facts else z3.BoolVal(True)
            res = V.VDict(n, Val.dhas(d), newget)
            quant = z3.ForAll([k], body, patterns=[z3.Select(newget, k)])
        else:
            newarr = V.fresh("maparr", V.IntArr)
            keep.append(newarr)
            facts = [z3.And(guard, z3.Select(newarr, j) == ex.lift(v)) for guard, v, s2 in vals]
            body = close(z3.Implies(dom, z3.Or(*facts))) if facts else z3.BoolVal(True)
            res = V.VList(n, newarr)
            quant = z3.ForAll([j], body, patterns=[z3.Select(newarr, j)])
            if kind == "gen":
                res = LazySeq(res)
        if raises:
            anyraise = close(z3.Or(*[g for g, _, _ in raises]))
            s_ok = st.copy()
            s_ok.assume(quant)
            s_ok.sig.append("comp:all-ok")
            if ex.feasible(s_ok):
                out.append((s_ok, ("val", res)))
            for guard, exc, s2 in raises:
                s_r = s2.copy()
                s_r.sig.append("comp:raise")
                out.append((s_r, ("raise", exc)))
        else:
            s_ok = st.copy()
            s_ok.assume(quant)
            out.append((s_ok, ("val", res)))
        return out


def _some_pattern(dom, var, it, is_dict_items):
    if is_dict_items:
        return z3.Select(Val.dhas(it.d), var)
    return z3.Select(V.seq_at(it), var)


def _fresh_consts(term, mark, exclude=()):
    seen, out, stack = set(), [], [term]
    excl = set(x.get_id() for x in exclude)
    while stack:
        t = stack.pop()
        if t.get_id() in seen:
            continue
        seen.add(t.get_id())
        if z3.is_const(t) and t.decl().kind() == z3.Z3_OP_UNINTERPRETED:
            nm = t.decl().name()
            if "!" in nm and t.get_id() not in excl:
                try:
                    num = int(nm.rsplit("!", 1)[1])
                except ValueError:
                    num = -1
                if num > mark:
                    out.append(t)
        elif z3.is_app(t):
            stack.extend(t.children())
        elif z3.is_quantifier(t):
            stack.append(t.body())
    return out
