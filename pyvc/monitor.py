"""Lock invariant and worker accounting for ThreadPool (DESIGN 2.8, Appendix B).

* fields protected by the pool lock are havocked and the lock invariant assumed when the lock is first acquired; the
  invariant is an obligation when it is released (`lock-release`);
* a write to a protected field without the lock is an obligation `lock-discipline` (false), except for the sites listed
  as exempt, whose justification is a separate clause of the function's contract;
* worker accounting: ghost `w_counted` says whether the running worker is still included in __nb_threads.  A write
  `__nb_threads := __nb_threads - 1` requires it (no double un-count) and clears it; leaving the serving loop by
  `return` while holding the lock requires that it has been cleared in the same critical section (the retire decision and
  the un-count are one atomic step).
"""
import z3
from . import vals as V
from .vals import Val
from .symexec import Obligation, RETURN

PFX = "_ThreadPool__"
LOCK = PFX + "lock"
NB, NBA, THREADS = PFX + "nb_threads", PFX + "nb_active_threads", "_threads"
PROTECTED = (NB, NBA, THREADS)


class PoolMonitor(object):
    def __init__(self, worker=False, exempt=()):
        self.worker = worker
        self.exempt = set(exempt)

    def self_obj(self, st):
        return st.locals.get("self")

    def invariant(self, st, me):
        nb, nba = st.read(Val.ref(me), NB), st.read(Val.ref(me), NBA)
        mx = st.read(Val.ref(me), "_max_threads")
        inv = [V.is_int(nb), V.is_int(nba), Val.i(nb) >= 0, Val.i(nba) >= 0, V.is_int(mx),
               Val.i(nb) <= Val.i(mx), V.is_list(st.read(Val.ref(me), THREADS)),
               Val.llen(st.read(Val.ref(me), THREADS)) >= 0]
        if self.worker:
            # thread-modular accounting (__nb_threads == number of counted workers): a worker that is still counted
            # contributes one to the count
            inv.append(z3.Implies(self.trusted.ghost(st, "w_counted"), Val.i(nb) >= 1))
            inv.append(z3.Implies(self.trusted.ghost(st, "w_active"), Val.i(nba) >= 1))
        return z3.And(*inv)

    def is_lock(self, ex, st, cm):
        me = self.self_obj(st)
        if me is None or not z3.is_expr(cm):
            return False
        return not ex.feasible(st, cm != st.read(Val.ref(me), LOCK))

    def acquire(self, ex, st, cm):
        self.trusted = ex.env.trusted
        me = self.self_obj(st)
        st.locks.append("pool")
        if len(st.locks) == 1:
            for f in PROTECTED:
                nv = V.fresh("locked_" + f)
                st.write(Val.ref(me), f, nv)
            st.assume(self.invariant(st, me))

    def release(self, ex, st, cm, ctl):
        self.trusted = ex.env.trusted
        me = self.self_obj(st)
        if self.worker and ctl[0] == RETURN:
            goal = z3.Not(ex.env.trusted.ghost(st, "w_counted"))
            st.obligations.append(Obligation("%s/monitor[retire_decision_and_uncount_are_atomic]" % ex.env.fn.key, st.hyps(),
                                             goal, st.sig, "monitor", "retire_decision_and_uncount_are_atomic",
                                             ex.env.contract.props))
            # C10 (safety core of the progress clause): a worker leaves only if the workers that stay are enough for every
            # task that is not finished - queued, running, or dequeued by a worker that has not counted itself active yet
            q = st.read(Val.ref(me), "_queue")
            enough = Val.i(st.read(Val.ref(me), NB)) >= Val.i(st.read(Val.ref(q), "unfinished_tasks"))
            st.obligations.append(Obligation("%s/monitor[retiring_leaves_enough_workers]" % ex.env.fn.key, st.hyps(), enough,
                                             st.sig, "monitor", "retiring_leaves_enough_workers", ex.env.contract.props))
        if st.locks:
            st.locks.pop()
        if not st.locks:
            st.obligations.append(Obligation("%s/lock-release[invariant]" % ex.env.fn.key, st.hyps(), self.invariant(st, me),
                                             st.sig, "lock-release", "invariant", ex.env.contract.props))

    def on_write(self, ex, st, obj, attr):
        me = self.self_obj(st)
        if me is None or attr not in PROTECTED:
            return
        if not obj.eq(me) and ex.feasible(st, Val.ref(obj) != Val.ref(me)):
            return
        if not st.locks and attr not in self.exempt:
            st.obligations.append(Obligation("%s/lock-discipline[%s]" % (ex.env.fn.key, attr), st.hyps(), z3.BoolVal(False),
                                             st.sig, "lock-discipline", attr, ex.env.contract.props))
        if attr == NBA and self.worker:
            arr = st.heap[NBA]
            if z3.is_app(arr) and arr.decl().kind() == z3.Z3_OP_STORE:
                prev = z3.Select(arr.arg(0), Val.ref(me))
                new = arr.arg(2)
                d = Val.i(new) - Val.i(prev)
                if not ex.feasible(st, d != 1):
                    st.ghost["w_active"] = z3.BoolVal(True)
                elif not ex.feasible(st, d != -1):
                    st.obligations.append(Obligation("%s/monitor[deactivate_only_when_active]" % ex.env.fn.key, st.hyps(),
                                                     ex.env.trusted.ghost(st, "w_active"), st.sig, "monitor",
                                                     "deactivate_only_when_active", ex.env.contract.props))
                    st.ghost["w_active"] = z3.BoolVal(False)
        if attr == NB and self.worker:
            arr = st.heap[NB]
            # the write just performed is Store(prev, ref, new): compare with the previous value
            if z3.is_app(arr) and arr.decl().kind() == z3.Z3_OP_STORE:
                prev = z3.Select(arr.arg(0), Val.ref(me))
                new = arr.arg(2)
                is_dec = z3.simplify(Val.i(new) - Val.i(prev) == -1)
                if z3.is_true(is_dec) or not ex.feasible(st, z3.Not(Val.i(new) - Val.i(prev) == -1)):
                    counted = ex.env.trusted.ghost(st, "w_counted")
                    st.obligations.append(Obligation("%s/monitor[uncount_only_once]" % ex.env.fn.key, st.hyps(), counted,
                                                     st.sig, "monitor", "uncount_only_once", ex.env.contract.props))
                    st.ghost["w_counted"] = z3.BoolVal(False)


# --- FutureResult: the registration slot (C16) ---------------------------------------------------------------------------
SLOT_LOCK = "_FutureResult__lock"
SLOT = ("_FutureResult__callback", "_FutureResult__extra")


class SlotMonitor(object):
    """Lock discipline of FutureResult's registration slot.

    * `__callback` / `__extra` are read and written only while `__lock` is held (`lock-discipline`), except in the
      constructor, where the object is not shared yet;
    * when the lock is acquired the slot holds arbitrary values (another thread may have registered or consumed a
      callback since this thread last looked): both fields are havocked;
    * when it is released one entry (seen callback, seen extra, left callback, left extra) is appended to the ghost
      `slot_log`; the contracts of __notify / set_callback / execute are stated over that log, so "the registration
      is stored in one atomic step" and "a callback is consumed (read and cleared) in one atomic step" are
      postconditions."""

    def __init__(self, constructor=False):
        self.constructor = constructor

    def self_obj(self, st):
        return st.locals.get("self")

    def is_lock(self, ex, st, cm):
        me = self.self_obj(st)
        if me is None or not z3.is_expr(cm):
            return False
        return not ex.feasible(st, cm != st.read(Val.ref(me), SLOT_LOCK))

    def acquire(self, ex, st, cm):
        me = self.self_obj(st)
        if st.locks:
            # threading.Lock is not re-entrant: acquiring it again would block forever
            st.obligations.append(Obligation("%s/lock-discipline[not re-entered]" % ex.env.fn.key, st.hyps(), z3.BoolVal(False),
                                             st.sig, "lock-discipline", "not re-entered", ex.env.contract.props))
        seen = []
        for f in SLOT:
            nv = V.fresh("locked_" + f)
            st.write(Val.ref(me), f, nv)
            seen.append(nv)
        st.locks.append(("slot", seen[0], seen[1]))

    def release(self, ex, st, cm, ctl):
        me = self.self_obj(st)
        top = st.locks.pop() if st.locks else ("slot", V.VNone, V.VNone)
        seen = top[1:]
        left = [st.read(Val.ref(me), f) for f in SLOT]
        entry = V.mk_tuple([seen[0], seen[1], left[0], left[1]])
        ex.env.trusted.ghost_append(st, "slot_log", entry)

    def on_write(self, ex, st, obj, attr):
        self._access(ex, st, obj, attr, "write")

    def on_read(self, ex, st, obj, attr):
        self._access(ex, st, obj, attr, "read")

    def _access(self, ex, st, obj, attr, how):
        me = self.self_obj(st)
        if me is None or attr not in SLOT or self.constructor:
            return
        if not obj.eq(me) and ex.feasible(st, Val.ref(obj) != Val.ref(me)):
            return
        if not st.locks:
            st.obligations.append(Obligation("%s/lock-discipline[%s %s]" % (ex.env.fn.key, how, attr), st.hyps(), z3.BoolVal(False),
                                             st.sig, "lock-discipline", "%s %s" % (how, attr), ex.env.contract.props))
