"""`bin/verif selftest`: checks of the checker itself.

1. operator tables vs CPython: every alternative table in pyvc/ops.py is evaluated on a grid of concrete operands;
   exactly one alternative must apply and its outcome (value or exception class) must be what CPython 3.12 does.
2. canaries: a scratch copy of the repository's package is made outside /repo and /verif, one line of one verified
   function is changed so that a stated postcondition becomes false, and the engine must report that obligation as
   refuted (and must still discharge everything for the unchanged copy).  Guards against vacuous contracts and an
   engine that proves anything.
exit 0 all agreed; exit 1 disagreement (the engine is not to be trusted until repaired)."""
import itertools
import json
import os
import shutil
import subprocess
import sys
import tempfile

import z3

from . import vals as V
from . import ops
from .bounded import holds

HERE = os.path.dirname(os.path.dirname(os.path.abspath(__file__)))

OPERANDS = [None, True, False, 0, 1, -3, 7, 2.5, -0.0, "", "a", "ab", "12", " 7 ", "x1", b"", b"a", b"12", [], [1], [1, "a", None],
            (), (1,), (1, 2), {}, {"a": 1}, {"a": 1, "b": [2]}, {1: "x"}]


def _same(a, b):
    if isinstance(a, float) or isinstance(b, float):
        return type(a) is type(b) and (a == b)
    if type(a) is not type(b):
        return False
    if isinstance(a, (list, tuple)):
        return len(a) == len(b) and all(_same(x, y) for x, y in zip(a, b))
    if isinstance(a, dict):
        return set(a) == set(b) and all(_same(a[k], b[k]) for k in a)
    return a == b


def _decode(term):
    s = z3.Solver()
    s.add(z3.Const("selftest!v", V.Val) == term)
    if s.check() != z3.sat:
        return ("?",)
    m = s.model()
    try:
        return ("v", V.val_to_py(m, term))
    except Exception as e:      # noqa
        return ("?", str(e))


def check_table(name, alts, expected, operands, problems, stats):
    applicable = []
    for cond, outcome in alts:
        h = holds(cond)
        if h is None:
            stats["undetermined"] += 1
            return
        if h:
            applicable.append(outcome)
    stats["cases"] += 1
    if len(applicable) != 1:
        if any(o[0] == "unsupported" for o in applicable) or not applicable and expected[0] == "skip":
            stats["unsupported"] += 1
            return
        problems.append("%s%r: %d alternatives apply" % (name, operands, len(applicable)))
        return
    kind, payload = applicable[0]
    if kind == "unsupported":
        stats["unsupported"] += 1
        return
    if expected[0] == "raise":
        if kind != "raise" or not issubclass(expected[1], payload):
            problems.append("%s%r: CPython raises %s, table says %s %s" % (name, operands, expected[1].__name__, kind, payload))
        return
    if kind != "val":
        problems.append("%s%r: CPython returns %r, table raises %s" % (name, operands, expected[1], payload))
        return
    want = V.py_to_val(expected[1], {})
    eq = holds(ops.py_eq(payload, want)) if not isinstance(expected[1], (list, tuple, dict)) else None
    if eq is None:
        got = _decode(z3.simplify(payload))
        if got[0] == "v" and _same(got[1], expected[1]):
            return
        if got[0] == "?":
            stats["undetermined"] += 1
            return
        problems.append("%s%r: CPython %r, table %r" % (name, operands, expected[1], got[1]))
    elif eq is False:
        problems.append("%s%r: CPython %r, table %s" % (name, operands, expected[1], z3.simplify(payload)))
    else:
        # same value: the kind must agree too (True vs 1)
        if holds(V.is_bool(payload)) is not isinstance(expected[1], bool):
            problems.append("%s%r: bool/int kind differs" % (name, operands))


def _py(fn, *a):
    try:
        return ("val", fn(*a))
    except Exception as e:      # noqa
        return ("raise", type(e))


def operator_tables():
    import operator
    problems, stats = [], {"cases": 0, "unsupported": 0, "undetermined": 0}
    tv = lambda x: V.py_to_val(x, {})
    for a in OPERANDS:
        za = tv(a)
        check_table("len", ops.op_len(za), _py(len, a), (a,), problems, stats)
        if not isinstance(a, str) or a.strip() == a:     # int(" 7 ") accepts blanks: int_str_ok is declared for canonical digits only
            check_table("int", ops.op_int(za), _py(int, a), (a,), problems, stats)
        check_table("neg", ops.op_neg(za), _py(operator.neg, a), (a,), problems, stats)
        t = holds(V.truthy(za))
        stats["cases"] += 1
        if t is not bool(a):
            problems.append("truthy(%r): table %s" % (a, t))
    for a, b in itertools.product(OPERANDS, repeat=2):
        za, zb = tv(a), tv(b)
        gi = _py(operator.getitem, a, b)
        if not (isinstance(a, bytes) and gi[0] == "val"):      # byte_at is uninterpreted: b"a"[0] has no modelled value
            check_table("getitem", ops.op_getitem(za, zb), gi, (a, b), problems, stats)
        if not (isinstance(b, bytes) and isinstance(a, int)):
            exact = [tv(e) for e in b] if isinstance(b, (list, tuple)) else None
            check_table("in", ops.op_in(za, zb, exact), _py(lambda x, c: x in c, a, b), (a, b), problems, stats)
        for nm, f in (("add", operator.add), ("sub", operator.sub), ("mul", operator.mul)):
            exp = _py(f, a, b)
            if nm == "add" and exp[0] == "val" and isinstance(exp[1], (list, tuple)):
                continue        # concatenation is an uninterpreted function with length facts
            if exp[0] == "val" and isinstance(exp[1], (set, frozenset)):
                continue
            check_table(nm, getattr(ops, "op_" + nm)(za, zb), exp, (a, b), problems, stats)
        for sym, f in (("<", operator.lt), (">=", operator.ge)):
            exp = _py(f, a, b)
            if isinstance(a, str) and isinstance(b, str):
                continue        # string order is uninterpreted
            check_table("cmp" + sym, ops.op_compare(sym, za, zb), exp, (a, b), problems, stats)
        e = holds(ops.py_eq(za, zb))
        stats["cases"] += 1
        if not isinstance(a, (list, tuple, dict)) and not isinstance(b, (list, tuple, dict)) and e is not None and e != (a == b):
            problems.append("py_eq(%r, %r): table %s" % (a, b, e))
    return problems, stats


CANARIES = [
    # (function key, file, old text, new text, obligation that must be refuted)
    ("jsonrpclib.SimpleJSONRPCServer.get_version", "jsonrpclib/SimpleJSONRPCServer.py",
     'if "jsonrpc" in request:\n        return 2.0', 'if "jsonrpc" in request:\n        return 1.0', "post[version]"),
    ("jsonrpclib.threadpool.ThreadPool.join", "jsonrpclib/threadpool.py",
     "if not self._queue.unfinished_tasks:", "if self._queue.empty():", "post["),
    ("jsonrpclib.jsonrpc.Payload.notify", "jsonrpclib/jsonrpc.py",
     'del request["id"]', 'request["id"] = 0', "post["),
    ("jsonrpclib.history.History.add_request", "jsonrpclib/history.py",
     "self.requests.append(request_obj)", "self.requests.insert(0, request_obj)", "post["),
]


def _fn(repo, key):
    env = dict(os.environ, VERIF_REPO=repo, JSONRPCLIB_VERIF="1", PYTHONPATH=HERE)
    env.pop("VERIF_CACHE", None)
    p = subprocess.run([sys.executable, "-B", "-m", "pyvc.cli", "fn", key], cwd=HERE, env=env, capture_output=True, text=True,
                       timeout=900)
    lines = p.stdout.strip().splitlines()
    return lines, p.stderr[-400:]


def canaries():
    problems, done = [], []
    repo = os.environ.get("VERIF_REPO", "/repo")
    tmp = tempfile.mkdtemp(prefix="verif_selftest_")
    try:
        for key, rel, old, new, needle in CANARIES:
            work = os.path.join(tmp, "c%d" % len(done))
            os.makedirs(work)
            shutil.copytree(os.path.join(repo, "jsonrpclib"), os.path.join(work, "jsonrpclib"),
                            ignore=shutil.ignore_patterns("__pycache__"))
            path = os.path.join(work, rel)
            with open(path) as fh:
                src = fh.read()
            if old not in src:
                done.append({"function": key, "result": "skipped: the anchor text is not in the current source"})
                shutil.rmtree(work)
                continue
            lines, err = _fn(work, key)
            if not lines or not lines[-1].startswith("ok") or any(l.startswith(("refuted", "unknown")) for l in lines):
                problems.append("canary %s: the unchanged copy does not verify: %s %s" % (key, lines[-1:] or "", err))
            with open(path, "w") as fh:
                fh.write(src.replace(old, new, 1))
            lines, err = _fn(work, key)
            hit = [l for l in lines if l.startswith("refuted") and needle in l]
            if not hit:
                problems.append("canary %s: the broken copy (%r -> %r) was not refuted: %s %s" % (key, old, new, lines[-1:] or "", err))
            done.append({"function": key, "change": "%s -> %s" % (old.strip()[:40], new.strip()[:40]),
                         "result": "refuted" if hit else "NOT refuted"})
            shutil.rmtree(work)
    finally:
        shutil.rmtree(tmp, ignore_errors=True)
    return problems, done


def main():
    p1, stats = operator_tables()
    print("operator tables vs CPython %s: %d cases, %d outside the supported subset, %d undetermined, %d disagreements" % (
        sys.version.split()[0], stats["cases"], stats["unsupported"], stats["undetermined"], len(p1)))
    for p in p1[:40]:
        print("  DISAGREE " + p)
    p2, done = canaries()
    for d in done:
        print("canary " + json.dumps(d))
    for p in p2:
        print("  CANARY-FAIL " + p)
    os.makedirs(os.path.join(HERE, "evidence"), exist_ok=True)
    with open(os.path.join(HERE, "evidence", "selftest.json"), "w") as fh:
        json.dump({"operator_tables": stats, "disagreements": p1[:100], "canaries": done, "canary_failures": p2}, fh, indent=1)
    return 1 if (p1 or p2) else 0


if __name__ == "__main__":
    sys.exit(main())
