"""Builtin functions, constructors of builtin types and methods of builtin values (part of the
operator table of DESIGN 2.4)."""
import ast
import builtins
import string as _string
import z3

from . import vals as V
from .vals import Val
from . import ops
from .ops import Unsupported
from . import classes as C
from .trusted import View, RangeV, LazySeq, KeysTuple, TypeSet

_FUNCS = {}
_CTORS = {}


def builtin(fn):
    def deco(h):
        _FUNCS[fn] = h
        return h
    return deco


def ctor(cls):
    def deco(h):
        _CTORS[cls] = h
        return h
    return deco


def lookup(fn):
    try:
        return _FUNCS.get(fn)
    except TypeError:
        return None


def constructor(pycls):
    return _CTORS.get(pycls)


def _meta(ex):
    from .symexec import Meta
    return Meta


# ----------------------------------------------------------------------------------------------------------
@builtin(builtins.isinstance)
def _isinstance(ex, st, args, kwargs, text):
    from .symexec import Meta, BoundMeth
    v, t = args
    if isinstance(t, TypeSet):
        # isinstance against statically known classes plus the key types of a symbolic dict: for the latter the
        # exact type is looked up (assumes no strict subclass of a handler type occurs among the values)
        from . import trusted as T_
        T_.used("isinstance(v, SUPPORTED_TYPES + tuple(handlers))",
                "exact-type lookup in the handler table; subclasses of handler types are not modelled")
        v = ex.lift(v)
        f = z3.Or(ops.isinstance_formula(v, t.meta, C.subclass, C.cls_of),
                  V.dict_has(t.d, V.KO(ops.type_id(v, C.cls_of))))
        return [(st, ("val", V.VBool(f)))]
    if not isinstance(t, Meta):
        raise Unsupported("isinstance with a dynamic type")
    ts = t.py if isinstance(t.py, tuple) else (t.py,)
    if isinstance(v, Meta):
        return [(st, ("val", V.B(isinstance(v.py, ts))))]
    if isinstance(v, BoundMeth):
        return [(st, ("val", V.B(False)))]
    for k in ts:
        if isinstance(k, type) and k not in ops.BUILTIN_TYPE_IDS and k is not object:
            C.register(k)
            if z3.is_expr(v):
                ex.isinst_cands.setdefault(v.get_id(), []).append(k)
                ex.pinned.append(v)        # keeps the id from being reused by another term
    return [(st, ("val", V.VBool(ops.isinstance_formula(v, ts, C.subclass, C.cls_of))))]


@builtin(builtins.len)
def _len(ex, st, args, kwargs, text):
    from .symexec import Meta
    (v,) = args
    if isinstance(v, Meta):
        return [(st, ("val", V.I(len(v.py))))]
    res = ex.apply_op(st, ops.op_len(v), "len")
    for s, oc in res:
        if oc[0] == "val":
            s.pc.append(Val.i(oc[1]) >= 0)
    return res


@builtin(builtins.callable)
def _callable(ex, st, args, kwargs, text):
    (v,) = args
    from .symexec import Meta, BoundMeth
    if isinstance(v, (Meta, BoundMeth)):
        return [(st, ("val", V.B(True)))]
    return [(st, ("val", V.VBool(z3.Or(V.is_fun(v), V.is_type(v)))))]


@builtin(builtins.min)
def _min(ex, st, args, kwargs, text):
    a, b = [ex.lift(x) for x in args]
    if kwargs:
        raise Unsupported("min with keywords")
    both_int = z3.And(V.is_int(a), V.is_int(b))
    alts = [(both_int, ("val", V.VInt(z3.If(Val.i(b) < Val.i(a), Val.i(b), Val.i(a))))),
            (z3.Not(both_int), ("unsupported", "min of non-integers"))]
    return ex.apply_op(st, alts, "min")


@builtin(builtins.max)
def _max(ex, st, args, kwargs, text):
    a, b = [ex.lift(x) for x in args]
    both_int = z3.And(V.is_int(a), V.is_int(b))
    alts = [(both_int, ("val", V.VInt(z3.If(Val.i(b) > Val.i(a), Val.i(b), Val.i(a))))),
            (z3.Not(both_int), ("unsupported", "max of non-integers"))]
    return ex.apply_op(st, alts, "max")


@builtin(builtins.hasattr)
def _hasattr(ex, st, args, kwargs, text):
    return ex.env.trusted.hasattr_(ex, st, args[0], args[1], text)


@builtin(builtins.getattr)
def _getattr(ex, st, args, kwargs, text):
    return ex.env.trusted.getattr_dyn(ex, st, args, text)


@builtin(builtins.setattr)
def _setattr(ex, st, args, kwargs, text):
    return ex.env.trusted.setattr_dyn(ex, st, args, text)


@builtin(builtins.print)
def _print(ex, st, args, kwargs, text):
    return ex.env.trusted.print_(ex, st, args, kwargs, text)


# --- constructors of builtin types -------------------------------------------------------------------------------
@ctor(str)
def _str(ex, st, args, kwargs, text):
    if not args:
        return [(st, ("val", V.S("")))]
    v = ex.lift(args[0])
    if len(args) == 2:
        # str(bytes, "UTF-8")
        enc = z3.simplify(ex.lift(args[1]))
        if not z3.eq(enc, V.S("UTF-8")):
            raise Unsupported("str(data, encoding) with another encoding")
        y = Val.y(v)
        alts = [(z3.And(V.is_bytes(v), V.utf8_valid(y)), ("val", V.VStr(V.dec_utf8(y)))),
                (z3.And(V.is_bytes(v), z3.Not(V.utf8_valid(y))), ("raise", UnicodeDecodeError)),
                (z3.Not(V.is_bytes(v)), ("raise", TypeError))]
        return ex.apply_op(st, alts, "str-decode")
    return [(st, ("val", V.VStr(ex.env.trusted.str_image(ex, st, v))))]


@ctor(bytes)
def _bytes(ex, st, args, kwargs, text):
    if not args:
        return [(st, ("val", V.VBytes(z3.StringVal(""))))]
    v = ex.lift(args[0])
    if len(args) == 2:
        enc = z3.simplify(ex.lift(args[1]))
        if not z3.eq(enc, V.S("UTF-8")):
            raise Unsupported("bytes(s, encoding) with another encoding")
        alts = [(V.is_str(v), ("val", V.VBytes(V.enc_utf8(Val.s(v))))),
                (z3.Not(V.is_str(v)), ("raise", TypeError))]
        res = ex.apply_op(st, alts, "bytes-encode")
        for s, oc in res:
            if oc[0] == "val":
                s.pc.extend(utf8_facts(Val.s(v)))
        return res
    raise Unsupported("bytes(x)")


def utf8_facts(s):
    """ground instances of the trusted UTF-8 theory for the string term s (lone surrogates are outside
    the domain)."""
    e = V.enc_utf8(s)
    return [V.utf8_valid(e), V.dec_utf8(e) == s, z3.Length(e) >= z3.Length(s),
            (z3.Length(e) == 0) == (z3.Length(s) == 0)]


@ctor(int)
def _int(ex, st, args, kwargs, text):
    if len(args) != 1:
        raise Unsupported("int() arity")
    return ex.apply_op(st, ops.op_int(ex.lift(args[0])), "int")


@ctor(float)
def _float(ex, st, args, kwargs, text):
    if len(args) != 1:
        raise Unsupported("float() arity")
    return ex.apply_op(st, ops.op_float(ex.lift(args[0])), "float")


@ctor(bool)
def _bool(ex, st, args, kwargs, text):
    v = ex.lift(args[0]) if args else V.B(False)
    return [(st, ("val", V.VBool(ex.truthy(v))))]


_LIT_TYPES = {"VNone": type(None), "VBool": bool, "VInt": int, "VFloat": float, "VStr": str, "VBytes": bytes}


@ctor(type)
def _type(ex, st, args, kwargs, text):
    from .symexec import Meta
    if len(args) != 1:
        raise Unsupported("type() with 3 arguments")
    v = args[0]
    if isinstance(v, Meta):
        return [(st, ("val", Meta(type(v.py))))]
    lit = z3.simplify(v)
    if z3.is_app(lit) and lit.decl().name() in _LIT_TYPES:
        return [(st, ("val", Meta(_LIT_TYPES[lit.decl().name()])))]
    pycls = st.typeof(v)
    if pycls is not None:
        st.assume(C.subclass(C.cls_of(Val.ref(v)), pycls))
    tv = V.VType(ops.type_id(v, C.cls_of))
    return [(st, ("val", tv))]


@ctor(list)
def _list(ex, st, args, kwargs, text):
    from .symexec import Meta
    if not args:
        return [(st, ("val", V.empty_list()))]
    v = args[0]
    if isinstance(v, Meta):
        return [(st, ("val", Meta(list(v.py))))]
    return ex.env.trusted.to_list(ex, st, v, V.VList)


@ctor(tuple)
def _tuple(ex, st, args, kwargs, text):
    from .symexec import Meta
    if not args:
        return [(st, ("val", V.mk_tuple([]))) ]
    v = args[0]
    if isinstance(v, Meta):
        return [(st, ("val", Meta(tuple(v.py))))]
    if z3.is_expr(v) and not ex.feasible(st, z3.Not(V.is_dict(v))):
        return [(st, ("val", KeysTuple(v)))]
    return ex.env.trusted.to_list(ex, st, v, V.VTuple)


@ctor(set)
def _set(ex, st, args, kwargs, text):
    if not args:
        return [(st, ("val", V.VSet(z3.IntVal(0), V.EMPTY_ARR, z3.BoolVal(False))))]
    raise Unsupported("set(iterable)")


@ctor(dict)
def _dict(ex, st, args, kwargs, text):
    if not args and not kwargs:
        return [(st, ("val", V.empty_dict()))]
    return ex.env.trusted.dict_ctor(ex, st, args, kwargs, text)


@ctor(range)
def _range(ex, st, args, kwargs, text):
    from .symexec import Meta
    if len(args) != 1:
        raise Unsupported("range with several arguments")
    n = ex.lift(args[0])
    return [(st, ("val", RangeV(Val.i(n))))]


# --- methods of builtin values -------------------------------------------------------------------------------------
def value_method(ex, st, recv, name, args, kwargs, node):
    from .symexec import Meta
    recv = ex.lift(recv)
    h = _VM.get(name)
    if h is None:
        raise Unsupported("method .%s of a value" % name)
    args = [ex.lift(a) for a in args]
    return h(ex, st, recv, args, kwargs, node)


_VM = {}


def vmethod(name):
    def deco(h):
        _VM[name] = h
        return h
    return deco


def writeback(ex, st, node, newval):
    """value semantics: after a mutating method the receiver expression is rebound to the new value."""
    tgt = node.func.value
    ex.alias_guard(st, tgt)
    return ex.assign(st, tgt, newval)


def _not(kind_ok, exc=AttributeError):
    return (z3.Not(kind_ok), ("raise", exc))


@vmethod("get")
def _m_get(ex, st, d, args, kwargs, node):
    k = args[0]
    default = args[1] if len(args) > 1 else V.VNone
    key = ops.to_key(k)
    alts = [(z3.And(V.is_dict(d), ops.hashable(k)),
             ("val", z3.If(V.dict_has(d, key), V.dict_get(d, key), default))),
            (z3.And(V.is_dict(d), z3.Not(ops.hashable(k))), ("raise", TypeError)),
            _not(V.is_dict(d))]
    res = ex.apply_op(st, alts, "dict.get")
    for s2, oc in res:
        if oc[0] == "val":
            s2.derived.add(s2.pin(oc[1]).get_id())
            s2.pc.append(z3.Implies(V.dict_has(d, key), __import__("pyvc.jsonish", fromlist=["x"]).component(d, V.dict_get(d, key))))
    return res


@vmethod("setdefault")
def _m_setdefault(ex, st, d, args, kwargs, node):
    k = args[0]
    default = args[1] if len(args) > 1 else V.VNone
    key = ops.to_key(k)
    had = V.dict_has(d, key)
    newd = V.VDict(z3.If(had, Val.dlen(d), Val.dlen(d) + 1), z3.Store(Val.dhas(d), key, True),
                   z3.Store(Val.dget(d), key, z3.If(had, V.dict_get(d, key), default)))
    alts = [(z3.And(V.is_dict(d), ops.hashable(k)), ("val", newd)),
            (z3.And(V.is_dict(d), z3.Not(ops.hashable(k))), ("raise", TypeError)),
            _not(V.is_dict(d))]
    out = []
    for s, oc in ex.apply_op(st, alts, "dict.setdefault"):
        if oc[0] == "raise":
            out.append((s, oc))
            continue
        res = writeback(ex, s, node, oc[1])
        for s2, ctl in res:
            if ctl[0] == "raise":
                out.append((s2, ("raise", ctl[1])))
            else:
                out.append((s2, ("val", z3.If(had, V.dict_get(d, key), default))))
    return out


@vmethod("pop")
def _m_pop(ex, st, c, args, kwargs, node):
    out = []
    if len(args) == 0:
        n = Val.llen(c)
        alts = [(z3.And(V.is_list(c), n > 0), ("val", V.VList(n - 1, Val.lat(c)))),
                (z3.And(V.is_list(c), n <= 0), ("raise", IndexError)),
                (z3.Not(V.is_list(c)), ("unsupported", "pop() on a non-list"))]
        for s, oc in ex.apply_op(st, alts, "list.pop"):
            if oc[0] == "raise":
                out.append((s, oc))
                continue
            for s2, ctl in writeback(ex, s, node, oc[1]):
                out.append((s2, ("val", z3.Select(Val.lat(c), n - 1)) if ctl[0] != "raise" else ("raise", ctl[1])))
        return out
    k = args[0]
    key = ops.to_key(k)
    had = V.dict_has(c, key)
    newd = V.VDict(Val.dlen(c) - 1, z3.Store(Val.dhas(c), key, False), Val.dget(c))
    alts = [(z3.And(V.is_dict(c), ops.hashable(k), had), ("val", (newd, V.dict_get(c, key)))),
            (z3.And(V.is_dict(c), z3.Not(ops.hashable(k))), ("raise", TypeError)),
            (z3.Not(V.is_dict(c)), ("unsupported", "pop(k) on a non-dict"))]
    if len(args) > 1:
        alts.append((z3.And(V.is_dict(c), ops.hashable(k), z3.Not(had)), ("val", (c, args[1]))))
    else:
        alts.append((z3.And(V.is_dict(c), ops.hashable(k), z3.Not(had)), ("raise", KeyError)))
    for s, oc in ex.apply_op(st, alts, "dict.pop"):
        if oc[0] == "raise":
            out.append((s, oc))
            continue
        newc, rv = oc[1]
        for s2, ctl in writeback(ex, s, node, newc):
            out.append((s2, ("val", rv) if ctl[0] != "raise" else ("raise", ctl[1])))
    return out


@vmethod("append")
def _m_append(ex, st, c, args, kwargs, node):
    from .symexec import Meta
    x = args[0]
    n = Val.llen(c)
    alts = [(V.is_list(c), ("val", V.VList(n + 1, z3.Store(Val.lat(c), n, x)))),
            _not(V.is_list(c))]
    out = []
    for s, oc in ex.apply_op(st, alts, "list.append"):
        if oc[0] == "raise":
            out.append((s, oc))
            continue
        hook = getattr(ex.env.trusted, "append_facts", None)
        if hook is not None:
            s.pc.extend(hook(c, x, oc[1]))
        for s2, ctl in writeback(ex, s, node, oc[1]):
            out.append((s2, ("val", V.VNone) if ctl[0] != "raise" else ("raise", ctl[1])))
    return out


@vmethod("copy")
def _m_copy(ex, st, c, args, kwargs, node):
    alts = [(z3.Or(V.is_dict(c), V.is_list(c), V.is_set(c)), ("val", c)),
            _not(z3.Or(V.is_dict(c), V.is_list(c), V.is_set(c)))]
    return ex.apply_op(st, alts, "copy")


@vmethod("keys")
def _m_keys(ex, st, d, args, kwargs, node):
    # a dict view: modelled as a tagged python pair so that indexing it raises TypeError (Python 3)
    alts = [(V.is_dict(d), ("val", View("keys", d))), _not(V.is_dict(d))]
    return ex.apply_op(st, alts, "dict.keys")


@vmethod("items")
def _m_items(ex, st, d, args, kwargs, node):
    alts = [(V.is_dict(d), ("val", View("items", d))), _not(V.is_dict(d))]
    return ex.apply_op(st, alts, "dict.items")


@vmethod("values")
def _m_values(ex, st, d, args, kwargs, node):
    alts = [(V.is_dict(d), ("val", View("values", d))), _not(V.is_dict(d))]
    return ex.apply_op(st, alts, "dict.values")


@vmethod("update")
def _m_update(ex, st, c, args, kwargs, node):
    return ex.env.trusted.update_method(ex, st, c, args, kwargs, node)


@vmethod("difference_update")
def _m_difference_update(ex, st, c, args, kwargs, node):
    return ex.env.trusted.difference_update(ex, st, c, args, kwargs, node)


@vmethod("remove")
def _m_remove(ex, st, c, args, kwargs, node):
    return ex.env.trusted.list_remove(ex, st, c, args, kwargs, node)


# --- strings ------------------------------------------------------------------------------------------------------
def _lit(v):
    sv = z3.simplify(v)
    if z3.is_app(sv) and sv.decl().name() == "VStr":
        inner = z3.simplify(sv.arg(0))
        if z3.is_string_value(inner):
            return inner.as_string()
    return None


@vmethod("format")
def _m_format(ex, st, fmt, args, kwargs, node):
    text = _lit(fmt)
    if text is None:
        raise Unsupported("str.format with a non-literal format")
    parts = []
    auto = 0
    for lit, field, spec, conv in _string.Formatter().parse(text):
        if lit:
            parts.append(z3.StringVal(lit))
        if field is None:
            continue
        if spec or conv:
            raise Unsupported("format spec/conversion")
        if field == "":
            idx = auto
            auto += 1
        elif field.isdigit():
            idx = int(field)
        else:
            raise Unsupported("named/attribute format field")
        if idx >= len(args):
            raise Unsupported("format index out of range")
        parts.append(ex.env.trusted.str_image(ex, st, args[idx]))
    if not parts:
        return [(st, ("val", V.S("")))]
    return [(st, ("val", V.VStr(z3.Concat(*parts) if len(parts) > 1 else parts[0])))]


@vmethod("startswith")
def _m_startswith(ex, st, s_, args, kwargs, node):
    p = args[0]
    alts = [(z3.And(V.is_str(s_), V.is_str(p)), ("val", V.VBool(z3.PrefixOf(Val.s(p), Val.s(s_))))),
            (z3.And(V.is_str(s_), z3.Not(V.is_str(p))), ("raise", TypeError)),
            _not(V.is_str(s_))]
    return ex.apply_op(st, alts, "startswith")


@vmethod("endswith")
def _m_endswith(ex, st, s_, args, kwargs, node):
    p = args[0]
    alts = [(z3.And(V.is_str(s_), V.is_str(p)), ("val", V.VBool(z3.SuffixOf(Val.s(p), Val.s(s_))))),
            (z3.And(V.is_str(s_), z3.Not(V.is_str(p))), ("raise", TypeError)),
            _not(V.is_str(s_))]
    return ex.apply_op(st, alts, "endswith")


@vmethod("lower")
def _m_lower(ex, st, s_, args, kwargs, node):
    low = V.lower(Val.s(s_))
    alts = [(V.is_str(s_), ("val", V.VStr(low))), _not(V.is_str(s_))]
    res = ex.apply_op(st, alts, "lower")
    for s, oc in res:
        s.pc.append(V.lower(low) == low)
    return res


@vmethod("strip")
def _m_strip(ex, st, s_, args, kwargs, node):
    return ex.env.trusted.opaque_str_method(ex, st, s_, "strip", args)


@vmethod("splitlines")
def _m_splitlines(ex, st, s_, args, kwargs, node):
    return ex.env.trusted.opaque_str_method(ex, st, s_, "splitlines", args)


@vmethod("split")
def _m_split(ex, st, s_, args, kwargs, node):
    return ex.env.trusted.str_split(ex, st, s_, args)


@vmethod("join")
def _m_join(ex, st, s_, args, kwargs, node):
    if not ex.feasible(st, z3.Not(V.is_obj(s_))):
        # .join() of an instance (a thread taken from a list): not a string join
        key = "threading.Thread.join"
        return ex.env.trusted.lookup(key)(ex, st, [s_] + list(args), kwargs, "join")
    return ex.env.trusted.str_join(ex, st, s_, args)


@vmethod("encode")
def _m_encode(ex, st, s_, args, kwargs, node):
    return ex.env.trusted.str_encode(ex, st, s_, args)
