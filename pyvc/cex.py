"""Counterexamples: model -> concrete inputs -> replay on the real code (DESIGN 2.10).

The generic replay covers functions whose parameters are plain values: the real function is called with
the extracted arguments and the violated clause is re-evaluated on the *observed* outcome (arguments and
outcome are turned back into ground terms and the clause formula is decided on them).  Contracts with
instances / environment callables provide their own `replay` hook."""
import copy
import traceback
import z3

from . import vals as V
from .vals import Val
from . import classes as C
from . import solve
from .contracts import Ctx, REGISTRY
from .symexec import Meta, ALLOC0


def key_pairs(formulas):
    pairs = {}
    for f in formulas:
        ps, _ = solve._scan(f)
        for dt, kt in ps:
            pairs[(dt.get_id(), kt.get_id())] = (dt, kt)
    return list(pairs.values())


def extract_inputs(env, ex, args, ob, model):
    """concrete Python values for the symbolic arguments under the model."""
    pairs = key_pairs(list(ob.hyps) + [ob.goal])
    out = {}
    for name, v in args.items():
        if isinstance(v, Meta):
            out[name] = ("meta", repr(v.py))
        elif z3.is_expr(v):
            out[name] = V.val_to_py(model, v, pairs, json_only=(env.contract.kinds.get(name) == "json"))
    return out


def jsonable(x):
    if isinstance(x, V.Opaque):
        return {"$opaque": repr(x)}
    if isinstance(x, dict):
        return {("%r" % (k,) if not isinstance(k, str) else k): jsonable(v) for k, v in x.items()}
    if isinstance(x, (list, tuple)):
        return [jsonable(v) for v in x]
    if isinstance(x, (set, frozenset)):
        return {"$set": [jsonable(v) for v in sorted(x, key=repr)]}
    if isinstance(x, bytes):
        return {"$bytes": x.decode("latin-1")}
    return x


def concrete_outcome(real_fn, pyargs):
    a = copy.deepcopy(pyargs)
    try:
        r = real_fn(**a)
        return ("return", r, a)
    except BaseException as e:     # noqa: the outcome, whatever it is, is what the clause is judged on
        return ("raise", e, a)


class ConcreteCtx(Ctx):
    """Ctx over an observed concrete outcome: class and args of the exception are ground terms."""
    def __init__(self, *a, **kw):
        self._cid = kw.pop("cid", None)
        self._args = kw.pop("excargs", None)
        Ctx.__init__(self, *a, **kw)

    def exc_cls(self):
        return z3.IntVal(self._cid) if self._cid is not None else Ctx.exc_cls(self)

    def exc_args(self):
        return self._args if self._args is not None else Ctx.exc_args(self)


def decide_ground(goal, facts=()):
    g = z3.simplify(goal)
    if z3.is_true(g):
        return True
    if z3.is_false(g):
        return False
    s = z3.Solver()
    s.set("timeout", 5000)
    s.add(*solve.base_facts())
    s.add(*facts)
    s.add(*solve.wf_ties(list(facts) + [g]))
    s.push()
    s.add(z3.Not(g))
    r1 = s.check()
    s.pop()
    if r1 == z3.unsat:
        return True
    s.add(g)
    if s.check() == z3.unsat:
        return False
    return None


def eval_clause(env, ex, con, label, pyargs, outcome):
    """decide the clause `label` of `con` on concrete arguments and the observed outcome.
    returns True (clause holds), False (violated) or None (could not decide)."""
    objtable = {}
    args = {}
    for name, v in pyargs.items():
        args[name] = V.py_to_val(v, objtable)
    kind, value, after = outcome
    heap = {}

    def arr(f):
        if f not in heap:
            heap[f] = z3.Array("CH!" + f, z3.IntSort(), Val)
        return heap[f]

    cid = excargs = None
    if kind == "return":
        ret = V.py_to_val(value, objtable) if _plain(value) else V.fresh("opaque_ret")
        raised = z3.BoolVal(False)
        exc = V.VNone
    else:
        ret = V.VNone
        raised = z3.BoolVal(True)
        exc = V.VObj(z3.IntVal(900000))
        cid = C.cid(type(value))
        try:
            excargs = V.py_to_val(tuple(value.args), objtable) if _plain(tuple(value.args)) else None
        except Exception:
            excargs = None
    after_vals = {n: (V.py_to_val(v, objtable) if _plain(v) else args[n]) for n, v in after.items()}
    ctx = ConcreteCtx(ex, args, arr, arr, lambda g: z3.Const("CG0!" + g, env.trusted.ghost_sort(g)),
                      lambda g: z3.Const("CG1!" + g, env.trusted.ghost_sort(g)), ret, raised, exc,
                      lambda n: after_vals.get(n, args[n]), None, cid=cid, excargs=excargs)
    for lab, fn_ens, props in con.ensures:
        if lab == label:
            return decide_ground(fn_ens(ctx))
    return None


def _plain(x, depth=0):
    if x is None or isinstance(x, (bool, int, float, str, bytes)):
        return True
    if depth > 8:
        return False
    if isinstance(x, (list, tuple, set, frozenset)):
        return all(_plain(e, depth + 1) for e in x)
    if isinstance(x, dict):
        return all(_plain(k, depth + 1) and _plain(v, depth + 1) for k, v in x.items())
    return False


def _apps(formulas, names):
    out, seen, stack = {}, set(), list(formulas)
    while stack:
        t = stack.pop()
        if t.get_id() in seen:
            continue
        seen.add(t.get_id())
        if z3.is_quantifier(t):
            stack.append(t.body())
            continue
        if z3.is_app(t):
            if t.decl().name() in names and solve._closed(t):
                out[t.get_id()] = t
            stack.extend(t.children())
    return list(out.values())


def refine_model(ob, model, prefer=None):
    """Ground, bounded re-solve used only to obtain a replayable counter-model (DESIGN 2.10): list
    membership and container equality are expanded exactly for containers of length <= 3 and dict lengths
    are tied to the keys that occur.  Never used in the proof direction."""
    from . import ops
    forms = list(ob.hyps) + [ob.goal]
    extra = []
    for t in _apps(forms, ("seq_member",)):
        x, c = t.arg(0), t.arg(1)
        n, at = V.seq_len(c), V.seq_at(c)
        extra.append(n <= 3)
        extra.append(t == z3.Or(*[z3.And(n > j, ops.py_eq(x, z3.Select(at, z3.IntVal(j)))) for j in range(3)]))
    small = []
    pairs = {}
    for dt, kt in key_pairs(forms):
        pairs.setdefault(dt.get_id(), (dt, []))[1].append(kt)
    for dt, kts in pairs.values():
        consts = [k for k in kts if solve._is_const_key(k)]
        if len(consts) == len(kts):
            small.append(Val.dlen(dt) == z3.Sum([z3.If(z3.Select(Val.dhas(dt), k), 1, 0) for k in consts]) if consts else Val.dlen(dt) == 0)
    for t in _apps(forms, ("llen", "tlen", "slen")):
        small.append(t <= 2)
    simple = list(prefer or [])
    for attempt in (extra + small + simple, extra + small, extra + simple, extra):
        if not attempt:
            continue
        s = z3.Solver()
        s.set("timeout", 5000)
        s.add(*solve.base_facts())
        s.add(*ob.hyps)
        s.add(z3.Not(ob.goal))
        s.add(*solve.wf_ties(forms))
        s.add(*attempt)
        if s.check() == z3.sat:
            return s.model()
    return model


def generic_cex(env, ex, args, ob, model):
    """counterexample record for an obligation refuted by the solver; replays when the function takes
    plain values only."""
    con = env.contract
    prefer = []
    for name, v in args.items():
        if z3.is_expr(v) and not (isinstance(con.kinds.get(name), str) and "obj:" in con.kinds.get(name)) and name != "self":
            prefer.append(z3.Not(z3.Or(V.is_obj(v), V.is_fun(v), V.is_type(v), V.is_set(v))))
    h0 = getattr(ex, "heap0_ref", {})
    for f in ("serialize_handlers", "classes"):
        if f in h0:
            for name, v in args.items():
                if z3.is_expr(v) and (name == "config" or f in ("serialize_handlers", "classes")) and \
                        isinstance(con.kinds.get(name), str) and con.kinds.get(name).endswith("Config"):
                    prefer.append(Val.dlen(z3.Select(h0[f], Val.ref(v))) == 0)
    model = refine_model(ob, model, prefer)
    inputs = extract_inputs(env, ex, args, ob, model)
    rec = {"inputs": jsonable(inputs), "replayed": False, "confirmed": None}
    if ob.kind != "post":
        return rec
    hook = getattr(con, "replay", None)
    try:
        if hook is not None:
            rec.update(hook(env, ex, con, ob, inputs))
            return rec
        if ob.kind == "post" and any(isinstance(k, str) and ("obj:" in k) for k in con.kinds.values()) or \
                (ob.kind == "post" and "self" in args):
            rec.update(object_replay(env, ex, con, ob, model, args, getattr(ex, "heap0_ref", {})))
            return rec
        if all(_plain(v) for v in inputs.values()):
            outcome = concrete_outcome(env.real_fn, inputs)
            verdict = eval_clause(env, ex, con, ob.clause, inputs, outcome)
            rec["replayed"] = True
            rec["observed"] = {"kind": outcome[0], "value": repr(outcome[1])[:300]}
            rec["confirmed"] = (verdict is False)
            rec["clause_on_observed"] = {True: "holds", False: "violated", None: "undecided"}[verdict]
    except Exception as e:
        rec["replay_error"] = "%s: %s" % (type(e).__name__, e)
        rec["trace"] = traceback.format_exc()[-800:]
    return rec


# -------------------------------------------------------------------------------------------------------------
# replay for functions that take instances: objects are materialised from the model's initial heap
def _instance_fields(pycls):
    """attribute names of an instance of pycls (from a default-constructed one when possible)"""
    try:
        probe = pycls()
        return list(vars(probe).keys())
    except Exception:
        return []


def materialize(env, ex, args, ob, model, st_heap0):
    from .symexec import ALLOC0
    pairs = key_pairs(list(ob.hyps) + [ob.goal])
    objs = {}      # ref int -> python object

    def build_obj(ref_int, pycls, depth=0):
        if ref_int in objs:
            return objs[ref_int]
        o = pycls.__new__(pycls)
        objs[ref_int] = o
        names = set(_instance_fields(pycls))
        for f in st_heap0:
            if f.startswith("?") or f == "args":
                continue
            names.add(f)
        for f in sorted(names):
            arr = st_heap0.get(f)
            if arr is None:
                continue
            probe = _instance_fields(pycls)
            if probe and f not in probe and f not in _declared_fields(env, pycls):
                continue            # the class is constructible and does not have this attribute
            val = conv(z3.Select(arr, z3.IntVal(ref_int)), env.fields.lookup(pycls, f), depth + 1)
            try:
                object.__setattr__(o, f, val)
            except Exception:
                pass
        return o

    def conv(term, info, depth=0):
        v = model.eval(term, model_completion=True)
        if z3.is_true(model.eval(V.is_obj(v), model_completion=True)) and info and info.get("type") and depth < 4:
            t = env.fields.resolve(info["type"])
            return build_obj(model.eval(Val.ref(v), model_completion=True).as_long(), t, depth)
        return V.val_to_py(model, term, pairs)

    pyargs = {}
    con = env.contract
    import inspect
    for name, v in args.items():
        kind = con.kinds.get(name)
        if isinstance(v, Meta):
            continue
        t = None
        if name == "self":
            t = env.fields.resolve(con.self_class) if con.self_class else env.cls
        elif isinstance(kind, str) and kind.startswith("obj:"):
            t = env.fields.resolve(kind[4:])
        elif isinstance(kind, str) and kind.startswith("opt:obj:"):
            if not z3.is_true(model.eval(V.is_none(v), model_completion=True)):
                t = env.fields.resolve(kind[8:])
        if t is not None:
            ref = model.eval(Val.ref(v), model_completion=True).as_long()
            pyargs[name] = build_obj(ref, t)
        else:
            pyargs[name] = V.val_to_py(model, v, pairs, json_only=(kind == "json"))
    return pyargs, objs


def _declared_fields(env, pycls):
    out = set()
    for (cname, attr) in env.fields.table:
        for k in pycls.__mro__:
            if cname == k.__module__ + "." + k.__qualname__:
                out.add(attr)
    return out


def _snapshot(objs):
    return {ref: dict((k, copy.deepcopy(v) if _plain(v) else v) for k, v in vars(o).items()) for ref, o in objs.items()}


def ground_heap(snap, objtable, extra_objs=()):
    heap = {}
    for ref, attrs in snap.items():
        for f, val in attrs.items():
            arr = heap.get(f, z3.K(z3.IntSort(), V.VNone))
            heap[f] = z3.Store(arr, z3.IntVal(ref), _to_val(val, objtable))
    return heap


def _to_val(x, objtable):
    if _plain(x):
        return V.py_to_val(x)
    if id(x) in objtable:
        return V.VObj(z3.IntVal(objtable[id(x)]))
    if isinstance(x, (list, tuple)):
        items = [_to_val(e, objtable) for e in x]
        return V.mk_list(items) if isinstance(x, list) else V.mk_tuple(items)
    if isinstance(x, dict):
        return V.mk_dict([(V.py_key(k), _to_val(v, objtable)) for k, v in x.items()])
    ref = 800000 + len(objtable)
    objtable[id(x)] = ref
    return V.VObj(z3.IntVal(ref))


def object_replay(env, ex, con, ob, model, args, st_heap0):
    """materialise instances from the model, run the real function, decide the clause on what was observed"""
    from .symexec import ALLOC0
    pyargs, objs = materialize(env, ex, args, ob, model, st_heap0)
    objtable = {id(o): ref for ref, o in objs.items()}
    # process-wide objects the function reads (the shared default Config): set from the model for the call
    restore = []
    for ref_term, real in getattr(env.trusted, "global_objects", []):
        ref_int = model.eval(ref_term, model_completion=True).as_long()
        pairs = key_pairs(list(ob.hyps) + [ob.goal])
        saved = dict(vars(real))
        restore.append((real, saved))
        for f in list(saved):
            if f in st_heap0:
                try:
                    setattr(real, f, V.val_to_py(model, z3.Select(st_heap0[f], z3.IntVal(ref_int)), pairs))
                except Exception:
                    pass
        objs.setdefault(ref_int, real)
        objtable[id(real)] = ref_int
    old = _snapshot(objs)
    call_args = dict(pyargs)
    import uuid as _uuid
    real_uuid4 = _uuid.uuid4
    made = []

    def counting_uuid4():
        u = real_uuid4()
        made.append(str(u))
        return u
    _uuid.uuid4 = counting_uuid4
    try:
        try:
            value = env.real_fn(**call_args)
            kind = "return"
        except BaseException as e:   # noqa
            value, kind = e, "raise"
    finally:
        _uuid.uuid4 = real_uuid4
        post_globals = [(real, dict(vars(real))) for real, _ in restore]
        for real, saved in restore:
            vars(real).clear()
            vars(real).update(saved)
    # objects created by the call that are reachable from the outcome
    fresh = {}
    if kind == "return" and not _plain(value) and hasattr(value, "__dict__") and id(value) not in objtable:
        objtable[id(value)] = 700000
        fresh[700000] = value
    allobjs = dict(objs)
    allobjs.update(fresh)
    new = _snapshot(allobjs)
    old_heap = ground_heap(old, objtable)
    new_heap = ground_heap(new, objtable)
    facts = [ALLOC0 == z3.IntVal(650000)]
    # ghost uuid counter: observed through the instrumented uuid4
    try:
        from contracts.base import uuid_str
        facts.append(z3.Const("CG0!uuid_ctr", z3.IntSort()) == 0)
        facts.append(z3.Const("CG1!uuid_ctr", z3.IntSort()) == len(made))
        for i_, s_ in enumerate(made):
            facts.append(uuid_str(z3.IntVal(i_)) == z3.StringVal(s_))
    except Exception:
        pass
    for ref, o in allobjs.items():
        facts.append(C.cls_of(z3.IntVal(ref)) == z3.IntVal(C.cid(type(o))))
    from contracts.base import DEFAULT_REF      # the shared default configuration, when it is an argument
    zargs = {}
    for name, v in args.items():
        if isinstance(v, Meta):
            zargs[name] = v
        elif name in pyargs:
            zargs[name] = _to_val(pyargs[name], objtable) if not _plain(pyargs[name]) else V.py_to_val(pyargs[name])
    cid = excargs = None
    if kind == "return":
        ret = _to_val(value, objtable)
        raised, exc = z3.BoolVal(False), V.VNone
    else:
        ret, raised, exc = V.VNone, z3.BoolVal(True), V.VObj(z3.IntVal(900000))
        cid = C.cid(type(value))
        try:
            excargs = _to_val(tuple(value.args), objtable)
        except Exception:
            excargs = None

    def arr_of(heap):
        def f(name):
            return heap.get(name, z3.K(z3.IntSort(), V.VNone))
        return f
    after_vals = {n: zargs[n] for n in zargs}
    g0 = lambda g: z3.Const("CG0!" + g, env.trusted.ghost_sort(g))
    g1 = lambda g: z3.Const("CG1!" + g, env.trusted.ghost_sort(g))
    ctx = ConcreteCtx(ex, zargs, arr_of(old_heap), arr_of(new_heap), g0, g1, ret, raised, exc,
                      lambda n: after_vals[n], None, cid=cid, excargs=excargs)
    verdict = None
    for lab, fn_ens, props in con.ensures:
        if lab == ob.clause:
            verdict = decide_ground(fn_ens(ctx), facts)
    def _d(v):
        if _plain(v):
            return jsonable(v)
        if hasattr(v, "__dict__"):
            return {"$instance": type(v).__name__,
                    "fields": jsonable({k: (x if _plain(x) else repr(x)) for k, x in vars(v).items()})}
        return jsonable(v) if isinstance(v, (dict, list, tuple, V.Opaque)) else repr(v)
    desc = {n: _d(v) for n, v in pyargs.items()}
    return {"inputs": desc, "replayed": True, "observed": {"kind": kind, "value": repr(value)[:300]},
            "confirmed": verdict is False,
            "clause_on_observed": {True: "holds", False: "violated", None: "undecided (ghost state is not observable)"}[verdict]}
