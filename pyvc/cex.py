"""Counterexamples: model -> concrete inputs -> replay on the real code (DESIGN 2.10).

The generic replay covers functions whose parameters are plain values: the real function is called with
the extracted arguments and the violated clause is re-evaluated on the *observed* outcome (arguments and
outcome are turned back into ground terms and the clause formula is decided on them).  Contracts with
instances / environment callables provide their own `replay` hook."""
import copy
import traceback
import z3

from . import vals as V
from .vals import Val
from . import classes as C
from . import solve
from .contracts import Ctx, REGISTRY
from .symexec import Meta, ALLOC0


def key_pairs(formulas):
    pairs = {}
    for f in formulas:
        ps, _ = solve._scan(f)
        for dt, kt in ps:
            pairs[(dt.get_id(), kt.get_id())] = (dt, kt)
    return list(pairs.values())


def extract_inputs(env, ex, args, ob, model):
    """concrete Python values for the symbolic arguments under the model."""
    pairs = key_pairs(list(ob.hyps) + [ob.goal])
    out = {}
    for name, v in args.items():
        if isinstance(v, Meta):
            out[name] = ("meta", repr(v.py))
        elif z3.is_expr(v):
            out[name] = V.val_to_py(model, v, pairs, json_only=(env.contract.kinds.get(name) == "json"))
    return out


def jsonable(x):
    if isinstance(x, V.Opaque):
        return {"$opaque": repr(x)}
    if isinstance(x, dict):
        return {("%r" % (k,) if not isinstance(k, str) else k): jsonable(v) for k, v in x.items()}
    if isinstance(x, (list, tuple)):
        return [jsonable(v) for v in x]
    if isinstance(x, (set, frozenset)):
        return {"$set": [jsonable(v) for v in sorted(x, key=repr)]}
    if isinstance(x, bytes):
        return {"$bytes": x.decode("latin-1")}
    return x


def concrete_outcome(real_fn, pyargs):
    a = copy.deepcopy(pyargs)
    try:
        r = real_fn(**a)
        return ("return", r, a)
    except BaseException as e:     # noqa: the outcome, whatever it is, is what the clause is judged on
        return ("raise", e, a)


def eval_clause(env, ex, con, label, pyargs, outcome):
    """decide the clause `label` of `con` on concrete arguments and the observed outcome.
    returns True (clause holds), False (violated) or None (could not decide)."""
    objtable = {}
    args = {}
    for name, v in pyargs.items():
        args[name] = V.py_to_val(v, objtable)
    kind, value, after = outcome
    facts = []
    heap = {}

    def arr(f):
        if f not in heap:
            heap[f] = z3.Array("CH!" + f, z3.IntSort(), Val)
        return heap[f]

    if kind == "return":
        ret = V.py_to_val(value, objtable) if _plain(value) else V.fresh("opaque_ret")
        raised = z3.BoolVal(False)
        exc = V.VNone
    else:
        ret = V.VNone
        raised = z3.BoolVal(True)
        ref = z3.IntVal(900000)
        exc = V.VObj(ref)
        cls = type(value)
        known = cls in C._ids
        cid = C.cid(cls)
        facts.append(C.cls_of(ref) == z3.IntVal(cid))
        try:
            facts.append(z3.Select(arr("args"), ref) == V.py_to_val(tuple(value.args), objtable))
        except Exception:
            pass
    after_vals = {n: (V.py_to_val(v, objtable) if _plain(v) else args[n]) for n, v in after.items()}
    ctx = Ctx(ex, args, arr, arr, lambda g: z3.Const("CG0!" + g, env.trusted.ghost_sort(g)),
              lambda g: z3.Const("CG1!" + g, env.trusted.ghost_sort(g)), ret, raised, exc,
              lambda n: after_vals.get(n, args[n]), None)
    for lab, fn_ens, props in con.ensures:
        if lab == label:
            goal = fn_ens(ctx)
            s = z3.Solver()
            s.set("timeout", 5000)
            s.add(*solve.base_facts())
            s.add(*facts)
            s.add(*solve.wf_ties(facts + [goal]))
            s.push()
            s.add(z3.Not(goal))
            r1 = s.check()
            s.pop()
            if r1 == z3.unsat:
                return True
            s.add(goal)
            r2 = s.check()
            if r2 == z3.unsat:
                return False
            return None
    return None


def _plain(x, depth=0):
    if x is None or isinstance(x, (bool, int, float, str, bytes)):
        return True
    if depth > 8:
        return False
    if isinstance(x, (list, tuple, set, frozenset)):
        return all(_plain(e, depth + 1) for e in x)
    if isinstance(x, dict):
        return all(_plain(k, depth + 1) and _plain(v, depth + 1) for k, v in x.items())
    return False


def _apps(formulas, names):
    out, seen, stack = {}, set(), list(formulas)
    while stack:
        t = stack.pop()
        if t.get_id() in seen:
            continue
        seen.add(t.get_id())
        if z3.is_quantifier(t):
            stack.append(t.body())
            continue
        if z3.is_app(t):
            if t.decl().name() in names and solve._closed(t):
                out[t.get_id()] = t
            stack.extend(t.children())
    return list(out.values())


def refine_model(ob, model):
    """Ground, bounded re-solve used only to obtain a replayable counter-model (DESIGN 2.10): list
    membership and container equality are expanded exactly for containers of length <= 3 and dict lengths
    are tied to the keys that occur.  Never used in the proof direction."""
    from . import ops
    forms = list(ob.hyps) + [ob.goal]
    extra = []
    for t in _apps(forms, ("seq_member",)):
        x, c = t.arg(0), t.arg(1)
        n, at = V.seq_len(c), V.seq_at(c)
        extra.append(n <= 3)
        extra.append(t == z3.Or(*[z3.And(n > j, ops.py_eq(x, z3.Select(at, z3.IntVal(j)))) for j in range(3)]))
    small = []
    pairs = {}
    for dt, kt in key_pairs(forms):
        pairs.setdefault(dt.get_id(), (dt, []))[1].append(kt)
    for dt, kts in pairs.values():
        consts = [k for k in kts if solve._is_const_key(k)]
        if len(consts) == len(kts):
            small.append(Val.dlen(dt) == z3.Sum([z3.If(z3.Select(Val.dhas(dt), k), 1, 0) for k in consts]) if consts else Val.dlen(dt) == 0)
    for t in _apps(forms, ("llen", "tlen", "slen")):
        small.append(t <= 2)
    for attempt in (extra + small, extra):
        if not attempt:
            continue
        s = z3.Solver()
        s.set("timeout", 5000)
        s.add(*solve.base_facts())
        s.add(*ob.hyps)
        s.add(z3.Not(ob.goal))
        s.add(*solve.wf_ties(forms))
        s.add(*attempt)
        if s.check() == z3.sat:
            return s.model()
    return model


def generic_cex(env, ex, args, ob, model):
    """counterexample record for an obligation refuted by the solver; replays when the function takes
    plain values only."""
    con = env.contract
    model = refine_model(ob, model)
    inputs = extract_inputs(env, ex, args, ob, model)
    rec = {"inputs": jsonable(inputs), "replayed": False, "confirmed": None}
    if ob.kind != "post":
        return rec
    hook = getattr(con, "replay", None)
    try:
        if hook is not None:
            rec.update(hook(env, ex, con, ob, inputs))
            return rec
        if all(_plain(v) for v in inputs.values()):
            outcome = concrete_outcome(env.real_fn, inputs)
            verdict = eval_clause(env, ex, con, ob.clause, inputs, outcome)
            rec["replayed"] = True
            rec["observed"] = {"kind": outcome[0], "value": repr(outcome[1])[:300]}
            rec["confirmed"] = (verdict is False)
            rec["clause_on_observed"] = {True: "holds", False: "violated", None: "undecided"}[verdict]
    except Exception as e:
        rec["replay_error"] = "%s: %s" % (type(e).__name__, e)
        rec["trace"] = traceback.format_exc()[-800:]
    return rec
