"""`bin/verif replay <file>`: decide again, on the current tree, the obligation a replay file names.

A replay file written by a check carries the failed obligation (function, clause, path signature), the solver's answer
and, where the counter-model could be turned into Python values, the inputs and what the real function did with them.
Replaying regenerates the verification conditions of that one function from $VERIF_REPO's current source, re-decides
the named obligation (same path signature first, same name otherwise), re-executes the counterexample on the real
code where there is one, and for bounded stand-ins re-runs the harness and looks for the same failing input.

exit 0: the obligation is discharged now (the violation is gone);  exit 1: it still fails;  exit 2: undecided;
exit 3: the file or the function could not be processed."""
import importlib
import json
import os
import sys


def _show(rec):
    print("property   : %s" % rec.get("property"))
    print("obligation : %s" % rec.get("obligation"))
    if rec.get("path_signature"):
        print("path       : %s" % " > ".join(rec["path_signature"][-8:]))
    if rec.get("solver"):
        print("solver     : %s" % json.dumps(rec["solver"]))
    cx = rec.get("counterexample") or {}
    if cx:
        print("recorded counterexample:")
        print(json.dumps(cx, indent=1, default=str)[:4000])


def _bounded(rec):
    pid = rec["property"]
    from . import runner
    runner.load_all()
    want_name, want_input = rec["obligation"], json.dumps((rec.get("counterexample") or {}).get("inputs"), sort_keys=True, default=str)
    found = []
    try:
        mod = importlib.import_module("props." + pid)
        checks = getattr(mod, "EXTRA_CHECKS", None) or []
    except ImportError:
        checks = []
    seed = int(os.environ.get("VERIF_SEED", "0") or 0)
    for chk in checks:
        for tier in ("quick", "thorough"):
            rep = chk(tier, seed)
            for fl in rep.get("failures", []):
                if fl["name"] == want_name and json.dumps(fl.get("input"), sort_keys=True, default=str) == want_input:
                    found.append(fl)
            if found:
                break
    if not found:
        # runtime contracts over the function's corpus
        fn = rec.get("function")
        from .contracts import REGISTRY
        if fn in REGISTRY and getattr(REGISTRY[fn], "corpus", None) is not None:
            runner._verify_one.pid = pid
            out = runner._verify_one_nocache(fn)
            for fl in (out.get("bounded") or {}).get("failures", []):
                if json.dumps(fl.get("input"), sort_keys=True, default=str) == want_input and fl.get("clause") == rec.get("clause"):
                    found.append(fl)
    if found:
        print("REPLAY: the real code still fails on the recorded input: %s" % json.dumps(found[0].get("observed"), default=str)[:600])
        return 1
    print("REPLAY: the recorded input no longer fails on the current tree")
    return 0


def main(path):
    try:
        with open(path) as fh:
            rec = json.load(fh)
    except Exception as e:       # noqa
        print("cannot read %s: %s" % (path, e))
        return 3
    _show(rec)
    if str(rec.get("stage", "")).startswith("bounded"):
        return _bounded(rec)
    from . import runner
    runner.load_all()
    from .contracts import REGISTRY
    fn = rec.get("function")
    if fn not in REGISTRY:
        print("no contract registered for %s" % fn)
        return 3
    runner._verify_one.pid = rec.get("property")
    out = runner._verify_one_nocache(fn)
    if out["status"] not in ("ok",):
        print("REPLAY: %s could not be verified: %s %s" % (fn, out["status"], out.get("message", "")[:400]))
        return 2
    import re as _re
    base = lambda n_: _re.sub(r"#\d+$", "", n_)       # a failing clause is re-decided conjunct by conjunct (#k suffix)
    same_name = [o for o in out["obligations"] if o["name"] == rec["obligation"]] or \
        [o for o in out["obligations"] if base(o["name"]) == base(rec["obligation"])]
    same_path = [o for o in same_name if o["sig"] == rec.get("path_signature")]
    cands = same_path or same_name
    if not cands:
        print("REPLAY: the current tree generates no obligation named %s" % rec["obligation"])
        return 2
    bad = [o for o in cands if o["status"] != "discharged"]
    for o in bad[:5]:
        print("REPLAY: %s is %s on the current tree (path %s)" % (o["name"], o["status"], " > ".join(o["sig"][-5:])))
        if o.get("cex"):
            print(json.dumps(o["cex"], indent=1, default=str)[:3000])
    if not bad:
        print("REPLAY: %s is discharged on the current tree (%d path(s))" % (rec["obligation"], len(cands)))
        return 0
    if any(o["status"] == "refuted" for o in bad):
        return 1
    return 2


if __name__ == "__main__":
    sys.exit(main(sys.argv[1]))
