"""Discharging obligations (DESIGN 2.9): z3 5.1 through the API; unknown/timeout goes to /usr/bin/z3
(4.8.12) on the exported SMT-LIB2.  unsat = discharged, sat = counter-model, anything else = undecided."""
import os
import subprocess
import tempfile
import time
import z3

from . import vals as V
from . import classes as C

QUICK_MS = int(os.environ.get("VERIF_SOLVER_MS", "10000"))


class Verdict(object):
    def __init__(self, status, backend, secs, model=None, reason=""):
        self.status, self.backend, self.secs, self.model, self.reason = status, backend, secs, model, reason


_BASE = None


def base_facts():
    global _BASE
    if _BASE is None or len(_BASE[1]) != len(C.known()):
        _BASE = (V.ground_facts() + C.name_facts(), list(C.known()))
    return _BASE[0]


_SCAN = {}


def _scan(f):
    """(dict,key) pairs under a `dhas` select and length terms occurring in one formula (memoised)."""
    i = f.get_id()
    hit = _SCAN.get(i)
    if hit is not None:
        return hit[1], hit[2]
    seen = set()
    pairs, lens = [], []
    stack = [f]
    while stack:
        t = stack.pop()
        ti = t.get_id()
        if ti in seen:
            continue
        seen.add(ti)
        if z3.is_quantifier(t):
            stack.append(t.body())
            continue
        if not z3.is_app(t):
            continue
        d = t.decl()
        nm = d.name()
        if d.kind() == z3.Z3_OP_SELECT:
            arr, idx = t.arg(0), t.arg(1)
            if z3.is_app(arr) and arr.decl().name() == "dhas" and _closed(arr.arg(0)) and _closed(idx):
                pairs.append((arr.arg(0), idx))
        elif nm in ("llen", "tlen", "slen", "dlen") and t.num_args() == 1 and _closed(t):
            lens.append(t)
        stack.extend(t.children())
    _SCAN[i] = (f, pairs, lens)
    return pairs, lens


def wf_ties(formulas):
    """Well-formedness facts true of every Python value, instantiated at the terms that occur
    (DESIGN 2.3 'finite support of dicts'): has(d,k) => len(d) >= 1, len(d) >= number of distinct constant
    keys present, every length >= 0."""
    Val = V.Val
    pairs = {}
    lens = {}
    for f in formulas:
        ps, ls = _scan(f)
        for dt, kt in ps:
            pairs.setdefault(dt.get_id(), (dt, {}))[1][kt.get_id()] = kt
        for t in ls:
            lens[t.get_id()] = t
    out = []
    for t in lens.values():
        out.append(t >= 0)
    for dt, keys in pairs.values():
        consts = []
        for kt in keys.values():
            out.append(z3.Implies(z3.Select(Val.dhas(dt), kt), Val.dlen(dt) >= 1))
            if _is_const_key(kt):
                consts.append(kt)
        if len(consts) > 1:
            out.append(Val.dlen(dt) >= z3.Sum([z3.If(z3.Select(Val.dhas(dt), kt), 1, 0) for kt in consts]))
    return out


def _closed(t):
    """no bound (de Bruijn) variable inside"""
    stack, seen = [t], set()
    while stack:
        x = stack.pop()
        if x.get_id() in seen:
            continue
        seen.add(x.get_id())
        if z3.is_var(x):
            return False
        if z3.is_app(x):
            stack.extend(x.children())
    return True


def _is_const_key(kt):
    kt = z3.simplify(kt)
    return z3.is_app(kt) and kt.decl().name() in ("KS", "KI") and kt.num_args() == 1 and \
        (z3.is_string_value(kt.arg(0)) or z3.is_int_value(kt.arg(0)))


def free_consts(t):
    """constants named FREE!... : universally quantified variables of a contract clause, kept free in the proof"""
    out, seen, stack = {}, set(), [t]
    while stack:
        x = stack.pop()
        if x.get_id() in seen:
            continue
        seen.add(x.get_id())
        if z3.is_quantifier(x):
            stack.append(x.body())
        elif z3.is_app(x):
            if x.num_args() == 0 and x.decl().kind() == z3.Z3_OP_UNINTERPRETED and x.decl().name().startswith("FREE!"):
                out[x.decl().name()] = x
            stack.extend(x.children())
    return list(out.values())


def forall_pat(vs, body, patterns):
    """ForAll with instantiation patterns; z3 rejects a pattern that contains an if-then-else (a contract applied where
    its arguments are conditional terms, e.g. at a recursive call): the quantifier is then built without patterns,
    which changes only how the solver instantiates it, not what it means"""
    try:
        return z3.ForAll(vs, body, patterns=patterns)
    except z3.Z3Exception:
        return z3.ForAll(vs, body)


def close_free(f):
    """the universal closure over FREE! constants (what a caller may assume); distributed over conjunctions so that
    every conjunct is quantified over its own variables only"""
    if z3.is_and(f):
        return z3.And(*[close_free(c) for c in f.children()])
    fc = free_consts(f)
    return z3.ForAll(fc, f) if fc else f


def _ref_terms(t, limit=8):
    """ground Int terms of the form ref(x) occurring in t: the object references the goal talks about"""
    out, seen, stack = {}, set(), [t]
    while stack and len(out) < limit:
        x = stack.pop()
        if x.get_id() in seen:
            continue
        seen.add(x.get_id())
        if z3.is_quantifier(x):
            continue
        if z3.is_app(x):
            if x.decl().name() == "ref" and x.num_args() == 1 and _closed(x):
                out[x.get_id()] = x
            stack.extend(x.children())
    return list(out.values())


def instantiate(hyps, goal):
    """engine rule: universally quantified hypotheses are instantiated at the free constants of the goal and, for
    reference-sorted variables, at the object references the goal mentions.  Pure instantiation: sound."""
    import itertools
    fc = free_consts(goal)
    cands = list(fc) + _index_consts(goal)
    refs = _ref_terms(goal)
    if not cands and not refs:
        return []
    out = []
    for q in hyps:
        for qq in _top_foralls(q):
            n = qq.num_vars()
            if n > 3:
                continue
            per_var = []
            for i in range(n):
                so = qq.var_sort(i)
                opts = [c for c in cands if c.sort() == so]
                if so == z3.IntSort():
                    opts = opts + refs
                per_var.append(opts[:8])
            if any(not o for o in per_var):
                continue
            count = 0
            for combo in itertools.product(*per_var):
                # substitute_vars takes the terms for de Bruijn indices 0..n-1, i.e. the last bound variable first
                out.append(z3.substitute_vars(qq.body(), *reversed(combo)))
                count += 1
                if count >= 40:
                    break
    return out


def _index_consts(t, limit=4):
    """integer constants introduced by the map rule for "an arbitrary position of the sequence" (j!n): a quantified
    hypothesis about every element is instantiated at them"""
    out, seen, stack = {}, set(), [t]
    while stack and len(out) < limit:
        x = stack.pop()
        if x.get_id() in seen:
            continue
        seen.add(x.get_id())
        if z3.is_quantifier(x):
            continue
        if z3.is_app(x):
            if x.num_args() == 0 and x.decl().kind() == z3.Z3_OP_UNINTERPRETED and x.sort() == z3.IntSort() and \
                    x.decl().name().startswith("j!"):
                out[x.get_id()] = x
            stack.extend(x.children())
    return list(out.values())


def _top_foralls(t):
    """universal quantifiers at the top of a hypothesis (possibly under conjunctions)"""
    if z3.is_quantifier(t):
        return [t] if t.is_forall() else []
    if z3.is_and(t):
        out = []
        for c in t.children():
            out.extend(_top_foralls(c))
        return out
    return []


_SYM = {}
_HEAVY = {}


def heavy_strings(f):
    """does the formula contain an *atom* that makes the string solver work (regular-expression membership,
    containment, prefix/suffix tests, equations between compound string terms, length arithmetic)?  Such facts are
    left out of *feasibility* queries only.  Compound strings that merely occur as arguments of uninterpreted
    functions are harmless."""
    i = f.get_id()
    hit = _HEAVY.get(i)
    if hit is not None:
        return hit[1]
    r = _heavy(f, 0)
    _HEAVY[i] = (f, r)
    return r


_STR_PRED = None


def _heavy(t, depth):
    global _STR_PRED
    if _STR_PRED is None:
        _STR_PRED = {z3.Z3_OP_SEQ_IN_RE, z3.Z3_OP_SEQ_CONTAINS, z3.Z3_OP_SEQ_PREFIX, z3.Z3_OP_SEQ_SUFFIX}
    if z3.is_quantifier(t):
        return True
    if not z3.is_app(t):
        return False
    k = t.decl().kind()
    if k in (z3.Z3_OP_AND, z3.Z3_OP_OR, z3.Z3_OP_NOT, z3.Z3_OP_IMPLIES, z3.Z3_OP_ITE) and t.sort() == z3.BoolSort():
        return any(_heavy(c, depth + 1) for c in t.children())
    if k in _STR_PRED:
        return True
    if k in (z3.Z3_OP_EQ, z3.Z3_OP_DISTINCT) and t.num_args() == 2 and z3.is_string(t.arg(0)):
        return any(_compound_string(a) for a in t.children())
    if k in (z3.Z3_OP_LE, z3.Z3_OP_GE, z3.Z3_OP_LT, z3.Z3_OP_GT, z3.Z3_OP_EQ):
        return "str.len" in t.sexpr() and any(op in t.sexpr() for op in ("str.substr", "str.++", "str.replace"))
    return False


def _compound_string(a):
    if not z3.is_app(a):
        return False
    return a.decl().kind() in (z3.Z3_OP_SEQ_CONCAT, z3.Z3_OP_SEQ_EXTRACT, z3.Z3_OP_SEQ_REPLACE, z3.Z3_OP_SEQ_AT)



def _symbols(t):
    """names of the uninterpreted constants and functions of a term (memoised)"""
    i = t.get_id()
    hit = _SYM.get(i)
    if hit is not None:
        return hit[1]
    out, seen, stack = set(), set(), [t]
    while stack:
        x = stack.pop()
        if x.get_id() in seen:
            continue
        seen.add(x.get_id())
        if z3.is_quantifier(x):
            stack.append(x.body())
        elif z3.is_app(x):
            if x.decl().kind() == z3.Z3_OP_UNINTERPRETED:
                out.add(x.decl().name())
            stack.extend(x.children())
    _SYM[i] = (t, out)
    return out


def _stringy(goal):
    """does the goal mention regular expressions or substring tests? (then the string facts of the path matter)"""
    sx = goal.sexpr()
    return ("str.in_re" in sx) or ("str.contains" in sx) or ("str.prefixof" in sx) or ("str.suffixof" in sx)


def strip_quantifiers(t):
    """replace quantified sub-formulas in positive position of a hypothesis by True (weakening)"""
    if z3.is_quantifier(t):
        return z3.BoolVal(True)
    if z3.is_app(t) and t.sort() == z3.BoolSort():
        k = t.decl().kind()
        if k == z3.Z3_OP_AND:
            return z3.And(*[strip_quantifiers(c) for c in t.children()])
        if k == z3.Z3_OP_OR:
            return z3.Or(*[strip_quantifiers(c) for c in t.children()])
        if k == z3.Z3_OP_IMPLIES and not _has_quantifier(t.arg(0)):
            return z3.Implies(t.arg(0), strip_quantifiers(t.arg(1)))
        if _has_quantifier(t):
            return z3.BoolVal(True)
    return t


def _has_quantifier(t):
    stack, seen = [t], set()
    while stack:
        x = stack.pop()
        if x.get_id() in seen:
            continue
        seen.add(x.get_id())
        if z3.is_quantifier(x):
            return True
        if z3.is_app(x):
            stack.extend(x.children())
    return False


def check_valid(hyps, goal, timeout_ms=None, want_model=True):
    """is (hyps => goal) valid?"""
    timeout_ms = timeout_ms or QUICK_MS
    t0 = time.time()
    hard = list(getattr(hyps, "hard", ()))
    hyps = list(hyps) + instantiate(hyps, goal)
    if hard and _stringy(goal):
        hyps = hyps + hard
    if hard and _stringy(goal):
        # string-heavy goal: first try with the hypotheses that share a symbol with it (fewer hypotheses: still a proof)
        gs = _symbols(goal)
        near = [h for h in hyps if not z3.is_quantifier(h) and (_symbols(h) & gs)]
        s0 = z3.Solver()
        s0.set("timeout", min(timeout_ms, 6000))
        s0.add(*V.ground_facts())
        s0.add(*near)
        s0.add(z3.Not(goal))
        if s0.check() == z3.unsat:
            return Verdict("discharged", "z3-%s(api, relevant hypotheses)" % z3.get_version_string(), time.time() - t0)
    s = z3.Solver()
    s.set("timeout", timeout_ms)
    s.add(*base_facts())
    s.add(*hyps)
    s.add(z3.Not(goal))
    s.add(*wf_ties(list(hyps) + [goal]))
    r = s.check()
    dt = time.time() - t0
    if r == z3.unsat:
        return Verdict("discharged", "z3-%s(api)" % z3.get_version_string(), dt)
    if r == z3.sat:
        return Verdict("refuted", "z3-%s(api)" % z3.get_version_string(), dt, s.model())
    reason = s.reason_unknown()
    # quantifier-free weakening: quantified hypotheses are replaced by their instances at the goal's free constants
    # (already added above) and dropped.  unsat of the weaker hypothesis set is still a proof; sat gives a
    # candidate counter-model that only the replay on the real code can confirm.
    qf = [strip_quantifiers(h) for h in hyps if not z3.is_quantifier(h)]
    s2 = z3.Solver()
    s2.set("timeout", max(2000, timeout_ms // 2))
    s2.add(*base_facts())
    s2.add(*qf)
    s2.add(z3.Not(goal))
    s2.add(*wf_ties(qf + [goal]))
    r2 = s2.check()
    if r2 == z3.unsat:
        return Verdict("discharged", "z3-%s(api, quantifier-free weakening)" % z3.get_version_string(), time.time() - t0)
    timed_out = any(w in str(reason).lower() for w in ("timeout", "canceled", "cancelled", "max. memory", "resource"))
    if r2 == z3.sat and not _has_quantifier(goal) and not timed_out:
        # only when the full query was given up for incompleteness: a query that merely ran out of time (a loaded machine)
        # stays undecided, it never becomes a violation
        return Verdict("refuted", "z3-%s(api, quantifier-free weakening)" % z3.get_version_string(), time.time() - t0,
                       s2.model(), reason="full query: unknown (%s); counter-model of the quantifier-free weakening" % reason)
    # second back end on the exported formula (thorough tier only: it doubles the cost of a hopeless query)
    if os.environ.get("VERIF_TIER_ACTIVE", "quick") != "thorough":
        return Verdict("unknown", "z3-%s(api)" % z3.get_version_string(), time.time() - t0, None, reason)
    smt2 = s.to_smt2()
    v2 = _cli_z3(smt2, timeout_ms)
    if v2 is not None:
        return Verdict(v2, "/usr/bin/z3-4.8.12(smt2)", time.time() - t0, None,
                       reason="api: unknown (%s); cli decided" % reason)
    return Verdict("unknown", "z3-%s(api)+/usr/bin/z3" % z3.get_version_string(), time.time() - t0, None, reason)


def _cli_z3(smt2, timeout_ms):
    exe = "/usr/bin/z3"
    if not os.path.exists(exe):
        return None
    fd, path = tempfile.mkstemp(suffix=".smt2", prefix="pyvc_")
    try:
        with os.fdopen(fd, "w") as fh:
            fh.write(smt2)
        try:
            out = subprocess.run([exe, "-T:%d" % max(1, timeout_ms // 1000), path], capture_output=True, text=True,
                                 timeout=timeout_ms / 1000.0 + 5).stdout.strip().splitlines()
        except subprocess.TimeoutExpired:
            return None
        if out and out[0] == "unsat":
            return "discharged"
        return None          # a CLI `sat` carries no model we can replay: stay undecided
    finally:
        try:
            os.unlink(path)
        except OSError:
            pass


def check_sat(hyps, extra=(), timeout_ms=None):
    """cover / vacuity check: is hyps (and extra) satisfiable?"""
    s = z3.Solver()
    s.set("timeout", timeout_ms or QUICK_MS)
    s.add(*base_facts())
    s.add(*hyps)
    s.add(*extra)
    s.add(*wf_ties(list(hyps) + list(extra)))
    r = s.check()
    return "sat" if r == z3.sat else ("unsat" if r == z3.unsat else "unknown")
