"""Per-function verification: build the symbolic entry state from the contract, execute the real body,
emit the obligations (post, frame, pre-of, invariants, lock/monitor) and discharge them."""
import importlib
import inspect
import time
import traceback
import z3

from . import vals as V
from .vals import Val
from . import classes as C
from . import extract
from . import solve
from .ops import Unsupported
from .symexec import (Executor, State, Meta, Obligation, ALLOC0, RETURN, RAISE, MissingContract, Budget)
from .contracts import REGISTRY, Ctx, Field, Param, Ghost, Registry
from . import trusted as T


class Env(object):
    pass


class ObResult(object):
    def __init__(self, ob, verdict):
        self.name, self.kind, self.clause, self.props, self.sig = ob.name, ob.kind, ob.clause, ob.props, ob.sig
        self.status, self.backend, self.secs, self.reason = verdict.status, verdict.backend, verdict.secs, verdict.reason
        self.cex = None          # filled by the counterexample extractor
        self.extra = ob.extra


class FnResult(object):
    def __init__(self, key):
        self.key = key
        self.status = "ok"          # ok | unsupported | missing-contract | error
        self.message = ""
        self.obligations = []       # ObResult
        self.paths = 0
        self.pruned = 0
        self.sha256 = None
        self.lines = None
        self.secs = 0.0
        self.covers = []
        self.trusted_used = {}
        self.callees = []

    def to_json(self):
        return {"function": self.key, "status": self.status, "message": self.message, "paths": self.paths,
                "pruned_infeasible": self.pruned, "sha256": self.sha256, "lines": self.lines, "secs": round(self.secs, 3),
                "obligations": [{"name": o.name, "kind": o.kind, "clause": o.clause, "props": list(o.props),
                                 "status": o.status, "backend": o.backend, "secs": round(o.secs, 4),
                                 "reason": o.reason, "sig": o.sig, "cex": o.cex, "extra": {k: v for k, v in (o.extra or {}).items() if isinstance(v, (str, int, float, bool))}} for o in self.obligations],
                "covers": self.covers, "trusted_used": self.trusted_used, "callees": self.callees}


def split_key(key):
    """'jsonrpclib.jsonrpc.Payload.request' -> ('jsonrpclib.jsonrpc', 'Payload.request')"""
    parts = key.split(".")
    for n in range(len(parts) - 1, 0, -1):
        modname = ".".join(parts[:n])
        try:
            importlib.import_module(modname)
            return modname, ".".join(parts[n:])
        except ImportError:
            continue
    raise KeyError(key)


def make_env(key, table, fields, monitor=None):
    con = REGISTRY[key]
    modname, qual = split_key(key)
    env = Env()
    env.contract = con
    env.fn = extract.get_function(modname, qual)
    env.module = extract.real_module(modname)
    env.real_fn = extract.real_object(modname, qual)
    if isinstance(env.real_fn, property):
        env.real_fn = env.real_fn.fget
    import inspect as _inspect
    if "." in qual:
        static = _inspect.getattr_static(extract.real_object(modname, qual.rsplit(".", 1)[0]), qual.rsplit(".", 1)[1], None)
        if isinstance(static, property):
            env.real_fn = static.fget
        elif isinstance(static, (staticmethod, classmethod)):
            env.real_fn = static.__func__
    cls = None
    if "." in qual:
        cls = extract.real_object(modname, qual.rsplit(".", 1)[0])
    env.cls = cls
    env.contracts = Registry()
    env.trusted = table
    env.fields = fields
    env.monitor = monitor
    env.env_call_hook = getattr(con, "env_call_hook", None)
    return env


def intro_param(ex, st, name, kind, pycls_default=None):
    """symbolic value for a parameter according to its kind."""
    if isinstance(kind, tuple) and kind[0] == "meta":
        return Meta(kind[1])
    v = z3.Const("arg_" + name, Val)
    if kind in (None, "val"):
        return v
    if kind.startswith("opt:"):
        inner = kind[4:]
        st2 = State()
        w = intro_param(ex, st2, name, inner, pycls_default)
        cons = z3.And(*st2.pc) if st2.pc else z3.BoolVal(True)
        st.assume(z3.Or(V.is_none(v), cons))
        for k_, t_ in st2.types.items():
            st.types[k_] = t_
        st.keep.extend(st2.keep)
        return v
    simple = {"str": V.is_str, "int": V.is_int, "bool": V.is_bool, "float": V.is_float, "list": V.is_list,
              "dict": V.is_dict, "tuple": V.is_tuple, "fun": V.is_fun, "bytes": V.is_bytes, "none": V.is_none}
    if kind in simple:
        st.assume(simple[kind](v))
        if kind in ("list", "tuple"):
            st.assume(V.seq_len(v) >= 0)
        if kind == "dict":
            st.assume(Val.dlen(v) >= 0)
        return v
    if kind == "json":
        st.assume(T_json(v))
        return v
    if kind.startswith("obj:") or kind == "self":
        cname = kind[4:] if kind.startswith("obj:") else None
        pycls = ex.env.fields.resolve(cname) if cname else pycls_default
        st.assume(V.is_obj(v))
        st.assume(Val.ref(v) < ALLOC0)
        st.assume(Val.ref(v) >= 0)
        C.register(pycls)
        st.assume(C.subclass(C.cls_of(Val.ref(v)), pycls))
        st.settype(v, pycls)
        return v
    raise Unsupported("parameter kind %r" % (kind,))


def T_json(v):
    from .jsonish import jsonv
    return jsonv(v)


def verify_function(key, table, fields, monitor=None, timeout_ms=None, cex_fn=None):
    t0 = time.time()
    res = FnResult(key)
    T.TRUSTED_USED.clear()
    from . import contracts as _contracts0
    _contracts0.USED_CONTRACTS.clear()
    V.reset_names()
    try:
        env = make_env(key, table, fields, monitor)
    except Exception as e:  # extraction failed: the function disappeared or does not parse
        res.status, res.message = "error", "extraction: %s: %s" % (type(e).__name__, e)
        return res
    con = env.contract
    res.sha256, res.lines = env.fn.sha256, list(env.fn.lines)
    ex = Executor(env)
    ex.dead_paths = []
    st = State()
    st.assume(ALLOC0 > 0)
    if getattr(table, "entry_setup", None) is not None:
        table.entry_setup(st)
    try:
        sig = inspect.signature(env.real_fn)
        args = {}
        for pname, p in sig.parameters.items():
            kind = con.kinds.get(pname)
            if pname == "self" and kind is None:
                selfcls = env.fields.resolve(con.self_class) if con.self_class else env.cls
                kind = "self"
                args[pname] = intro_param(ex, st, pname, kind, selfcls)
            else:
                args[pname] = intro_param(ex, st, pname, kind)
            if p.kind == p.VAR_POSITIONAL:
                st.assume(V.is_tuple(args[pname]))
            if p.kind == p.VAR_KEYWORD:
                st.assume(V.is_dict(args[pname]))
        st.locals.update(args)
        for pname, t in con.types.items():
            if pname in args and z3.is_expr(args[pname]):
                st.settype(args[pname], env.fields.resolve(t))
        if con.setup is not None:
            con.setup(ex, st, args)
        entry_ghost = {}

        def g_old(name, _st=st):
            if name not in entry_ghost:
                entry_ghost[name] = z3.Const("G0!" + name, table.ghost_sort(name))
            return entry_ghost[name]

        pre_ctx = Ctx(ex, args, lambda f: st.field_arr(f), lambda f: st.field_arr(f), g_old, g_old,
                      V.VNone, z3.BoolVal(False), V.VNone, lambda n: args[n], st)
        for label, fn_req in con.requires:
            st.assume(solve.close_free(fn_req(pre_ctx)))      # FREE! variables of a precondition are universally quantified
        if solve.check_sat(st.pc) != "sat":
            res.status, res.message = "error", "precondition is not satisfiable (vacuous contract)"
            return res
        ex.heap0_ref = st.heap0
        ex.never_written = tuple(getattr(con, "never_written", ()) or ())
        ex.root_key, ex.root_props = key, con.props
        _targets = {}
        for m_ in con.modifies:
            if isinstance(m_, Field) and m_.obj is not None:
                _targets.setdefault(m_.name, []).append(m_.obj)
        # objects whose field the contract's frame allows to change: loop and join havocs do not keep them (sound: more havoc)
        ex.frame_refs = lambda f, _t=_targets, _c=pre_ctx: [Val.ref(fn_(_c)) for fn_ in _t.get(f, [])]
        outs = ex.run(st)
    except Unsupported as e:
        res.status, res.message = "unsupported", str(e)
        res.secs = time.time() - t0
        return res
    except MissingContract as e:
        res.status, res.message = "missing-contract", str(e)
        res.secs = time.time() - t0
        return res
    except Budget as e:
        res.status, res.message = "unsupported", "budget: %s" % e
        res.secs = time.time() - t0
        return res
    except Exception as e:
        res.status, res.message = "error", "%s: %s\n%s" % (type(e).__name__, e, traceback.format_exc()[-1500:])
        res.secs = time.time() - t0
        return res
    res.paths, res.pruned = len(outs), ex.pruned
    obligations = []
    seen = set()

    def collect(s):
        for ob in s.obligations:
            if id(ob) not in seen:
                seen.add(id(ob))
                obligations.append(ob)

    for s in ex.dead_paths:
        collect(s)
    for out in outs:
        collect(out.st)
    cover = {}
    for out in outs:
        s = out.st
        raised = z3.BoolVal(out.kind == RAISE)
        ret = ex.lift(out.value) if out.kind == RETURN else V.VNone
        if not z3.is_expr(ret):
            ret = ex.reify(s, ret) if isinstance(ret, (Meta,)) else V.VNone
        exc = out.value if out.kind == RAISE else V.VNone

        def old_arr(f, _s=s):
            if f not in _s.heap0:
                _s.field_arr(f)
            return _s.heap0[f]

        def new_arr(f, _s=s):
            return _s.field_arr(f)

        def g_new(name, _s=s):
            return _s.ghost[name] if name in _s.ghost else g_old(name)

        def after(name, _s=s):
            return ex.lift(_s.locals.get(name, args[name]))

        ctx = Ctx(ex, args, old_arr, new_arr, g_old, g_new, ret, raised, exc, after, s)
        for label, fn_ens, props in con.ensures:
            if props and "assumed" in props:
                continue        # stated, used by callers, listed as an assumption in the evidence; not proved
            goal = fn_ens(ctx)
            obligations.append(Obligation("%s/post[%s]" % (key, label), s.hyps(), goal, s.sig, "post", label,
                                          props or con.props, {"outcome": out.kind}))
        # frame: heap fields
        allowed = {}
        for m in con.modifies:
            if isinstance(m, Field):
                allowed.setdefault(m.name, []).append(m.obj)
        for f, arr in s.heap.items():
            if f.startswith("?"):
                continue
            base = s.heap0.get(f)
            if base is None or arr.eq(base):
                continue
            r = z3.Int("frame_ref")
            excl = [r < ALLOC0, r >= 0]
            unrestricted = False
            for objfn in allowed.get(f, []):
                if objfn is None:
                    unrestricted = True
                else:
                    excl.append(r != Val.ref(objfn(pre_ctx)))
            if unrestricted:
                continue
            goal = z3.Implies(z3.And(*excl), z3.Select(arr, r) == z3.Select(base, r))
            obligations.append(Obligation("%s/frame[%s]" % (key, f), s.hyps(), goal, s.sig, "frame", f, con.props))
        # frame: parameter containers and ghost state
        mod_params = {m.name for m in con.modifies if isinstance(m, Param)}
        for pname in s.written_params:
            if pname not in mod_params and pname in args and z3.is_expr(args[pname]):
                goal = ex.lift(s.locals.get(pname)) == args[pname] if pname in s.locals else z3.BoolVal(True)
                obligations.append(Obligation("%s/frame[param %s]" % (key, pname), s.hyps(), goal, s.sig, "frame",
                                              "param " + pname, con.props))
        mod_ghost = {m.name for m in con.modifies if isinstance(m, Ghost)}
        for g, val in s.ghost.items():
            if g not in mod_ghost and not val.eq(g_old(g)):
                obligations.append(Obligation("%s/frame[ghost %s]" % (key, g), s.hyps(), val == g_old(g), s.sig, "frame",
                                              "ghost " + g, con.props))
    for label, fn_lem, props in getattr(con, "lemmas", []) or []:
        lh, lg = fn_lem()
        obligations.append(Obligation("%s/lemma[%s]" % (key, label), lh, lg, [], "lemma", label, props))
    # discharge: the post clauses of one path are first tried as a single conjunction
    groups = {}
    for ob in obligations:
        if ob.kind == "post":
            groups.setdefault(id(ob.hyps[0]) if False else tuple(ob.sig) + (ob.extra.get("outcome"), len(ob.hyps)), []).append(ob)
    merged_ok = set()
    for key_, obs in groups.items():
        obs = [o for o in obs if not solve._stringy(o.goal)]     # string-heavy clauses are checked on their own
        if len(obs) < 3:
            continue
        same = all(len(o.hyps) == len(obs[0].hyps) for o in obs)
        if not same:
            continue
        v = solve.check_valid(obs[0].hyps, z3.And(*[o.goal for o in obs]), timeout_ms)
        if v.status == "discharged":
            for o in obs:
                merged_ok.add(id(o))
                o._merged = solve.Verdict("discharged", v.backend, v.secs / len(obs))
    import os as _os
    t_dis = time.time()
    dis_budget = float(_os.environ.get("VERIF_DISCHARGE_BUDGET_S", "600"))
    res.exec_secs = round(t_dis - t0, 2)
    for ob in obligations:
        if id(ob) in merged_ok:
            res.obligations.append(ObResult(ob, ob._merged))
            continue
        if time.time() - t_dis > dis_budget:
            res.obligations.append(ObResult(ob, solve.Verdict("unknown", "-", 0.0, None, "discharge budget of the function exhausted")))
            continue
        v = solve.check_valid(ob.hyps, ob.goal, timeout_ms)
        if v.status != "discharged" and z3.is_and(ob.goal) and ob.kind in ("inv-entry", "inv-preserve", "post", "pre-of", "assert", "lock-release") \
                and ob.goal.num_args() > 1:
            # report the conjuncts separately: smaller queries, and the failing part is named
            parts = ob.goal.children()
            allok = True
            for n_, part in enumerate(parts):
                sub = Obligation("%s#%d" % (ob.name, n_), ob.hyps, part, ob.sig, ob.kind, ob.clause, ob.props,
                                 dict(ob.extra or {}, conjunct=str(part)[:160].replace("\n", " ")))
                vs = solve.check_valid(sub.hyps, sub.goal, timeout_ms)
                rs = ObResult(sub, vs)
                if vs.status == "refuted" and cex_fn is not None:
                    try:
                        rs.cex = cex_fn(env, ex, args, sub, vs.model)
                    except Exception as e:
                        rs.cex = {"error": "%s: %s" % (type(e).__name__, e)}
                res.obligations.append(rs)
                allok = allok and vs.status == "discharged"
            continue
        r = ObResult(ob, v)
        if v.status == "refuted" and cex_fn is not None:
            try:
                r.cex = cex_fn(env, ex, args, ob, v.model)
            except Exception as e:
                r.cex = {"error": "%s: %s" % (type(e).__name__, e)}
        res.obligations.append(r)
    # covers: every `A => B` style clause should be reachable on some path (vacuity guard)
    res.covers = [{"paths": len(outs), "returns": sum(1 for o in outs if o.kind == RETURN),
                   "raises": sum(1 for o in outs if o.kind == RAISE)}]
    res.trusted_used = dict(T.TRUSTED_USED)
    from . import contracts as _contracts
    res.callees = sorted(_contracts.USED_CONTRACTS)
    res.secs = time.time() - t0
    return res
