"""Class lattice used for `except` matching and isinstance on instances (DESIGN 2.4).

Known classes get small integer ids; `subclass(c, K)` is a disjunction over the known descendants of
K plus an uninterpreted predicate for classes the verifier knows nothing about (ids >= UNKNOWN)."""
import importlib
import z3

UNKNOWN = 100000

_BUILTIN = [BaseException, Exception, ArithmeticError, AssertionError, AttributeError, EOFError,
            ImportError, ModuleNotFoundError, LookupError, IndexError, KeyError, MemoryError,
            NameError, OSError, ConnectionError, ConnectionResetError, ConnectionRefusedError,
            ConnectionAbortedError, BrokenPipeError, TimeoutError, FileNotFoundError,
            RuntimeError, NotImplementedError, RecursionError, StopIteration, SyntaxError,
            TypeError, ValueError, UnicodeError, UnicodeDecodeError, UnicodeEncodeError,
            ZeroDivisionError, OverflowError, KeyboardInterrupt, SystemExit, GeneratorExit, object]

_ids = {}
_classes = []

cls_of = z3.Function("cls_of", z3.IntSort(), z3.IntSort())          # heap ref -> class id
usub = z3.Function("usub", z3.IntSort(), z3.IntSort(), z3.BoolSort())  # unknown class c is a subclass of known k
cname = z3.Function("cname", z3.IntSort(), z3.StringSort())          # class id -> __name__


def register(pycls):
    if pycls not in _ids:
        _ids[pycls] = len(_classes) + 1
        _classes.append(pycls)
    return _ids[pycls]


def cid(pycls):
    return register(pycls)


def known():
    return list(_classes)


def by_id(i):
    return _classes[i - 1] if 1 <= i <= len(_classes) else None


def load_known(repo_modules=()):
    for c in _BUILTIN:
        register(c)
    import queue, http.client, socket, json
    for c in (queue.Empty, queue.Full, http.client.HTTPException, http.client.RemoteDisconnected,
              http.client.BadStatusLine, http.client.CannotSendRequest, http.client.ResponseNotReady,
              socket.timeout, json.JSONDecodeError):
        register(c)
    for modname in repo_modules:
        mod = importlib.import_module(modname)
        for name in sorted(vars(mod)):
            obj = vars(mod)[name]
            if isinstance(obj, type) and getattr(obj, "__module__", "").startswith("jsonrpclib"):
                register(obj)


_SUBMACRO = {}


def subclass(c, pycls):
    """formula: the class with id term `c` is a subclass of the Python class `pycls` (a z3 function
    definition per class, re-made when new classes get registered)."""
    k = cid(pycls)
    key = (k, len(_classes))
    f = _SUBMACRO.get(key)
    if f is None:
        x = z3.Int("sub!x")
        alts = [x == z3.IntVal(_ids[d]) for d in _classes if isinstance(d, type) and issubclass(d, pycls)]
        alts.append(z3.And(x >= UNKNOWN, usub(x, z3.IntVal(k))))
        f = z3.RecFunction("subclass_%d_%d" % key, z3.IntSort(), z3.BoolSort())
        z3.RecAddDefinition(f, [x], z3.Or(*alts))
        _SUBMACRO[key] = f
    return f(c)


def exact(c, pycls):
    return c == z3.IntVal(cid(pycls))


def unknown_class_axioms(c):
    """monotonicity of usub for a class-id term that may denote an unknown class."""
    out = []
    for a in _classes:
        for b in a.__mro__[1:]:
            if b in _ids:
                out.append(z3.Implies(usub(c, z3.IntVal(_ids[a])), usub(c, z3.IntVal(_ids[b]))))
    return out


def name_facts():
    return [cname(z3.IntVal(_ids[c])) == z3.StringVal(c.__name__) for c in _classes]
