"""Value model: what a Python value is inside a formula (DESIGN.md section 2.3).

One recursive z3 datatype, nested through arrays.  Lists/tuples/sets are (len, Array(Int, Val)),
dicts are (len, has: Array(Key, Bool), get: Array(Key, Val)), class instances are references into
a per-field heap kept by the executor.
"""
import z3

# ---------------------------------------------------------------------------------------------
# sorts

Key = z3.Datatype("Key")
Key.declare("KS", ("ks", z3.StringSort()))     # str key
Key.declare("KI", ("ki", z3.IntSort()))        # int key (bool keys are folded into ints, as Python does)
Key.declare("KO", ("ko", z3.IntSort()))        # any other hashable (types, None, tuples ...), opaque identity
Key = Key.create()

_Val = z3.Datatype("Val")
_fw = z3.DatatypeSort("Val")
_Val.declare("VNone")
_Val.declare("VBool", ("b", z3.BoolSort()))
_Val.declare("VInt", ("i", z3.IntSort()))
_Val.declare("VFloat", ("r", z3.RealSort()))
_Val.declare("VStr", ("s", z3.StringSort()))
_Val.declare("VBytes", ("y", z3.StringSort()))          # opaque byte string, see enc/dec below
_Val.declare("VList", ("llen", z3.IntSort()), ("lat", z3.ArraySort(z3.IntSort(), _fw)))
_Val.declare("VTuple", ("tlen", z3.IntSort()), ("tat", z3.ArraySort(z3.IntSort(), _fw)))
_Val.declare("VSet", ("slen", z3.IntSort()), ("sat", z3.ArraySort(z3.IntSort(), _fw)),
             ("frozen", z3.BoolSort()))
_Val.declare("VDict", ("dlen", z3.IntSort()), ("dhas", z3.ArraySort(Key, z3.BoolSort())),
             ("dget", z3.ArraySort(Key, _fw)))
_Val.declare("VObj", ("ref", z3.IntSort()))             # class instance (incl. exceptions): heap reference
_Val.declare("VFun", ("fid", z3.IntSort()))             # opaque callable of the environment
_Val.declare("VType", ("tid", z3.IntSort()))            # class object used as a value
Val = _Val.create()

IntArr = z3.ArraySort(z3.IntSort(), Val)
HasArr = z3.ArraySort(Key, z3.BoolSort())
GetArr = z3.ArraySort(Key, Val)

V = Val  # short alias

# constructors / testers / accessors -----------------------------------------------------------
VNone = Val.VNone
VBool, VInt, VFloat, VStr, VBytes = Val.VBool, Val.VInt, Val.VFloat, Val.VStr, Val.VBytes
VList, VTuple, VSet, VDict, VObj, VFun, VType = (Val.VList, Val.VTuple, Val.VSet, Val.VDict,
                                                  Val.VObj, Val.VFun, Val.VType)
is_none, is_bool, is_int, is_float, is_str, is_bytes = (Val.is_VNone, Val.is_VBool, Val.is_VInt,
                                                        Val.is_VFloat, Val.is_VStr, Val.is_VBytes)
is_list, is_tuple, is_set, is_dict, is_obj, is_fun, is_type = (Val.is_VList, Val.is_VTuple,
                                                                Val.is_VSet, Val.is_VDict,
                                                                Val.is_VObj, Val.is_VFun,
                                                                Val.is_VType)
KS, KI, KO = Key.KS, Key.KI, Key.KO

_counter = [0]


def fresh(prefix, sort=None):
    _counter[0] += 1
    return z3.Const("%s!%d" % (prefix, _counter[0]), sort if sort is not None else Val)


def reset_names():
    _counter[0] = 0


def S(text):
    return VStr(z3.StringVal(text))


def I(n):
    return VInt(z3.IntVal(n))


def B(b):
    return VBool(z3.BoolVal(bool(b)))


EMPTY_ARR = z3.K(z3.IntSort(), VNone)
EMPTY_HAS = z3.K(Key, z3.BoolVal(False))
EMPTY_GET = z3.K(Key, VNone)


def empty_list():
    return VList(z3.IntVal(0), EMPTY_ARR)


def empty_dict():
    return VDict(z3.IntVal(0), EMPTY_HAS, EMPTY_GET)


def mk_seq(ctor, items):
    arr = EMPTY_ARR
    for j, it in enumerate(items):
        arr = z3.Store(arr, z3.IntVal(j), it)
    return ctor(z3.IntVal(len(items)), arr)


def mk_list(items):
    return mk_seq(VList, items)


def mk_tuple(items):
    return mk_seq(VTuple, items)


def mk_dict(pairs):
    """pairs: list of (Key term, Val term); later pairs override earlier ones (distinct keys assumed
    by the caller when the length matters)."""
    has, get = EMPTY_HAS, EMPTY_GET
    for k, v in pairs:
        has = z3.Store(has, k, z3.BoolVal(True))
        get = z3.Store(get, k, v)
    return VDict(z3.IntVal(len(pairs)), has, get)


# ---------------------------------------------------------------------------------------------
# total observers used by both the executor and the specifications

def is_number(v):
    """int or float (bool excluded): what the statements call 'a number'."""
    return z3.Or(is_int(v), is_float(v))


def is_numeric(v):
    """isinstance(v, (int, float)): bool included, as Python does."""
    return z3.Or(is_int(v), is_float(v), is_bool(v))


def _num_def(v):
    """numeric value as a Real (bool -> 0/1); unspecified on other tags."""
    return z3.If(is_int(v), z3.ToReal(Val.i(v)),
                 z3.If(is_float(v), Val.r(v),
                       z3.If(z3.And(is_bool(v), Val.b(v)), z3.RealVal(1), z3.RealVal(0))))


def seq_len(v):
    return z3.If(is_list(v), Val.llen(v), z3.If(is_tuple(v), Val.tlen(v), Val.slen(v)))


def seq_at(v):
    return z3.If(is_list(v), Val.lat(v), z3.If(is_tuple(v), Val.tat(v), Val.sat(v)))


def is_seq(v):
    return z3.Or(is_list(v), is_tuple(v), is_set(v))


def _truthy_def(v):
    """bool(v) for values without user-defined __bool__/__len__ (instances are truthy)."""
    return z3.If(is_none(v), False,
           z3.If(is_bool(v), Val.b(v),
           z3.If(is_int(v), Val.i(v) != 0,
           z3.If(is_float(v), Val.r(v) != 0,
           z3.If(is_str(v), z3.Length(Val.s(v)) > 0,
           z3.If(is_bytes(v), z3.Length(Val.y(v)) > 0,
           z3.If(is_list(v), Val.llen(v) > 0,
           z3.If(is_tuple(v), Val.tlen(v) > 0,
           z3.If(is_set(v), Val.slen(v) > 0,
           z3.If(is_dict(v), Val.dlen(v) > 0, True))))))))))


def dict_has(d, key):
    # a key can only be present in a non-empty dict: the conjunct keeps `len` and membership consistent even
    # where the finite-support ties of pyvc.solve cannot see the term (inside macro applications)
    return z3.And(z3.Select(Val.dhas(d), key), Val.dlen(d) >= 1)


def dict_get(d, key):
    return z3.Select(Val.dget(d), key)


def has(d, name):
    """specification helper: d is a dict with the str key `name`."""
    return z3.And(is_dict(d), dict_has(d, KS(z3.StringVal(name))))


def get(d, name):
    return dict_get(d, KS(z3.StringVal(name)))


def strict_eq(a, b):
    """same tag and same payload (the equality specifications use)."""
    return a == b


def py_prim_eq(a, b):
    """Python == restricted to operands that are both primitives; numeric cross-type aware."""
    return z3.If(z3.And(is_numeric(a), is_numeric(b)), num(a) == num(b), a == b)


def is_primitive(v):
    return z3.Or(is_none(v), is_bool(v), is_int(v), is_float(v), is_str(v), is_bytes(v))


def is_container(v):
    return z3.Or(is_list(v), is_tuple(v), is_set(v), is_dict(v))


# opaque conversions (uninterpreted, with the few ground facts the code relies on) --------------
str_of = z3.Function("str_of", Val, z3.StringSort())          # str(v) for non-str/int values
repr_of = z3.Function("repr_of", Val, z3.StringSort())
lower = z3.Function("lower", z3.StringSort(), z3.StringSort())
float_of_str = z3.Function("float_of_str", z3.StringSort(), z3.RealSort())
float_str_ok = z3.Function("float_str_ok", z3.StringSort(), z3.BoolSort())
int_of_str = z3.Function("int_of_str", z3.StringSort(), z3.IntSort())
int_str_ok = z3.Function("int_str_ok", z3.StringSort(), z3.BoolSort())
str_of_float = z3.Function("str_of_float", z3.RealSort(), z3.StringSort())
enc_utf8 = z3.Function("enc_utf8", z3.StringSort(), z3.StringSort())      # str -> bytes payload
dec_utf8 = z3.Function("dec_utf8", z3.StringSort(), z3.StringSort())      # bytes payload -> str
utf8_valid = z3.Function("utf8_valid", z3.StringSort(), z3.BoolSort())
type_name = z3.Function("type_name", Val, z3.StringSort())                 # type(v).__name__ for objects
jdumps_of = z3.Function("jdumps_of", Val, z3.StringSort())                 # json.dumps image
jdumps_ok = z3.Function("jdumps_ok", Val, z3.BoolSort())                   # json.dumps does not raise


def ground_facts():
    """Ground facts about the opaque conversions; conjoined to every query."""
    sv = z3.StringVal
    f = []
    for txt, val in (("1.0", 1), ("2.0", 2), ("1", 1), ("2", 2)):
        f.append(float_str_ok(sv(txt)))
        f.append(float_of_str(sv(txt)) == z3.RealVal(val))
    f.append(str_of_float(z3.RealVal(1)) == sv("1.0"))
    f.append(str_of_float(z3.RealVal(2)) == sv("2.0"))
    f.append(z3.Not(float_str_ok(sv(""))))
    return f


def int_to_str(i):
    return z3.If(i >= 0, z3.IntToStr(i), z3.Concat(z3.StringVal("-"), z3.IntToStr(-i)))


def _str_image_def(v):
    """str(v): exact for str and int, None and bool; opaque otherwise."""
    return z3.If(is_str(v), Val.s(v),
           z3.If(is_int(v), int_to_str(Val.i(v)),
           z3.If(is_none(v), z3.StringVal("None"),
           z3.If(is_bool(v), z3.If(Val.b(v), z3.StringVal("True"), z3.StringVal("False")),
           z3.If(is_float(v), str_of_float(Val.r(v)), str_of(v))))))


# the heavy observers are z3 function definitions (macros): formulas stay small and are built fast
def _define(name, sorts, body_fn):
    args = [z3.Const("%s!a%d" % (name, i), so) for i, so in enumerate(sorts[:-1])]
    f = z3.RecFunction(name, *sorts)
    z3.RecAddDefinition(f, args, body_fn(*args))
    return f


truthy = _define("truthy", [Val, z3.BoolSort()], _truthy_def)
num = _define("num", [Val, z3.RealSort()], _num_def)
str_image = _define("str_image", [Val, z3.StringSort()], _str_image_def)


# ---------------------------------------------------------------------------------------------
# concretisation: Python value -> ground term; and model -> Python value

class Opaque(object):
    """A Python object that is carried as an opaque reference when concretised."""

    def __init__(self, kind, ident, payload=None):
        self.kind, self.ident, self.payload = kind, ident, payload

    def __repr__(self):
        return "<%s#%s>" % (self.kind, self.ident)


def py_key(k):
    if isinstance(k, bool):
        return KI(z3.IntVal(int(k)))
    if isinstance(k, str):
        return KS(z3.StringVal(k))
    if isinstance(k, int):
        return KI(z3.IntVal(k))
    return KO(z3.IntVal(abs(hash(repr(k))) % (10 ** 9)))


def py_to_val(x, objtable=None):
    """Ground Val term for a concrete Python value (containers recursively).  Instances are
    numbered through `objtable` (dict id->ref) so that identity is preserved."""
    if x is None:
        return VNone
    if isinstance(x, bool):
        return B(x)
    if isinstance(x, int):
        return I(x)
    if isinstance(x, float):
        if x != x or x in (float("inf"), float("-inf")):
            raise ValueError("non-finite float outside the model")
        from fractions import Fraction
        fr = Fraction(x)
        return VFloat(z3.RealVal(fr.numerator) / z3.RealVal(fr.denominator))
    if isinstance(x, str):
        return S(x)
    if isinstance(x, (bytes, bytearray)):
        return VBytes(z3.StringVal(bytes(x).decode("latin-1")))
    if isinstance(x, list):
        return mk_list([py_to_val(e, objtable) for e in x])
    if isinstance(x, tuple):
        return mk_tuple([py_to_val(e, objtable) for e in x])
    if isinstance(x, (set, frozenset)):
        items = sorted(x, key=repr)
        t = mk_seq(lambda n, a: VSet(n, a, z3.BoolVal(isinstance(x, frozenset))),
                   [py_to_val(e, objtable) for e in items])
        return t
    if isinstance(x, dict):
        return mk_dict([(py_key(k), py_to_val(v, objtable)) for k, v in x.items()])
    if objtable is None:
        objtable = {}
    if isinstance(x, type):
        return VType(z3.IntVal(objtable.setdefault(("T", id(x)), 5000 + len(objtable))))
    if callable(x) and not hasattr(x, "__dict__"):
        return VFun(z3.IntVal(objtable.setdefault(("F", id(x)), 7000 + len(objtable))))
    return VObj(z3.IntVal(objtable.setdefault(("O", id(x)), 9000 + len(objtable))))


def _zstr(model_str):
    # z3 string values come back with \u{..} escapes
    return model_str.as_string().encode("utf-8").decode("unicode_escape") \
        if "\\u{" not in model_str.as_string() else _unescape(model_str.as_string())


def _unescape(s):
    import re
    return re.sub(r"\\u\{([0-9a-fA-F]+)\}", lambda m: chr(int(m.group(1), 16)), s)


def val_to_py(model, term, pairs=(), depth=0, json_only=False):
    """Concrete Python value for `term` under `model`.  Dict contents are read at the (dict term, key term)
    pairs that occur in the query (finite support, DESIGN 2.3) and padded with fresh keys up to the
    modelled length.  json_only: tags json.loads cannot produce are replaced by None (free choice of an
    unconstrained component; the replay on the real code is what decides)."""
    ev = lambda t: model.eval(t, model_completion=True)
    epairs = [(ev(dt), kt) for dt, kt in pairs]
    v = ev(term)
    return _val_to_py(model, v, epairs, depth, json_only)


def _val_to_py(model, v, epairs, depth, json_only):
    if depth > 6:
        return None
    ev = lambda t: model.eval(t, model_completion=True)
    if z3.is_true(ev(is_none(v))):
        return None
    if z3.is_true(ev(is_bool(v))):
        return z3.is_true(ev(Val.b(v)))
    if z3.is_true(ev(is_int(v))):
        return ev(Val.i(v)).as_long()
    if z3.is_true(ev(is_float(v))):
        r = ev(Val.r(v))
        try:
            return float(r.numerator_as_long()) / float(r.denominator_as_long())
        except Exception:
            return float(r.approx(10).as_fraction())
    if z3.is_true(ev(is_str(v))):
        return _unescape(ev(Val.s(v)).as_string())
    if z3.is_true(ev(is_bytes(v))):
        if json_only:
            return None
        return _unescape(ev(Val.y(v)).as_string()).encode("latin-1", "replace")
    for tst, ln, at, mk in ((is_list, Val.llen, Val.lat, list), (is_tuple, Val.tlen, Val.tat, tuple),
                            (is_set, Val.slen, Val.sat, None)):
        if z3.is_true(ev(tst(v))):
            if json_only and mk is not list:
                return None
            n = max(0, min(ev(ln(v)).as_long(), 6))
            items = [_val_to_py(model, ev(z3.Select(at(v), z3.IntVal(j))), epairs, depth + 1, json_only)
                     for j in range(n)]
            if mk is None:
                try:
                    return set(items)
                except TypeError:
                    return items
            return mk(items)
    if z3.is_true(ev(is_dict(v))):
        n = max(0, min(ev(Val.dlen(v)).as_long(), 8))
        out = {}
        for dv, kt in epairs:
            if not dv.eq(v):
                continue
            kv = ev(kt)
            if z3.is_true(ev(z3.Select(Val.dhas(v), kv))):
                pk = key_to_py(model, kv)
                if json_only and not isinstance(pk, str):
                    continue
                out[pk] = _val_to_py(model, ev(z3.Select(Val.dget(v), kv)), epairs, depth + 1, json_only)
        j = 0
        while len(out) < n:
            cand = "pad%d" % j
            j += 1
            if cand not in out:
                out[cand] = None
        return out
    if json_only:
        return None
    if z3.is_true(ev(is_obj(v))):
        return Opaque("obj", ev(Val.ref(v)).as_long())
    if z3.is_true(ev(is_fun(v))):
        return Opaque("fun", ev(Val.fid(v)).as_long())
    if z3.is_true(ev(is_type(v))):
        return Opaque("type", ev(Val.tid(v)).as_long())
    return None


def key_to_py(model, kv):
    ev = lambda t: model.eval(t, model_completion=True)
    if z3.is_true(ev(Key.is_KS(kv))):
        return _unescape(ev(Key.ks(kv)).as_string())
    if z3.is_true(ev(Key.is_KI(kv))):
        return ev(Key.ki(kv)).as_long()
    return Opaque("key", ev(Key.ko(kv)).as_long())
