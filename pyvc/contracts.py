"""Contracts (DESIGN 2.5-2.7): sidecar specifications keyed by qualified name.

A contract is a Python object holding
  params    : ordered parameter names with their *kind* (how a symbolic argument is introduced)
  requires  : list of (label, fn(ctx) -> z3 Bool)      -- assumed in the body, asserted at call sites
  ensures   : list of (label, fn(ctx) -> z3 Bool, props) -- asserted on every finished path of the body,
                                                          assumed at call sites
  modifies  : list of frame entries; everything else is proved unchanged in the body and kept at
              call sites
  loops     : {ordinal: LoopSpec}
`ctx` gives the formulas access to arguments, old/new heap, ghost state and the outcome.
"""
import inspect
import z3

from . import vals as V
from .vals import Val
from . import classes as C
from .ops import Unsupported

REGISTRY = {}


class Field(object):
    """frame entry: attribute `name` of the object denoted by fn(ctx) (or of every object when obj is None)"""
    def __init__(self, obj, name):
        self.obj, self.name = obj, name


class Fresh(object):
    """frame entry: attribute `name` may be written on objects allocated during the call only"""
    def __init__(self, name):
        self.name = name


class Param(object):
    """frame entry: the container passed as parameter `name` may be mutated"""
    def __init__(self, name):
        self.name = name


class Ghost(object):
    def __init__(self, name):
        self.name = name


class LoopSpec(object):
    def __init__(self, invariant=None, label="inv", mutates=(), variant=None):
        """variant (while loops only): an integer term over the loop context that is >= 0 whenever the body is entered and
        strictly smaller after every iteration that goes round again (obligation inv-variant: the loop terminates)"""
        self.invariant, self.label, self.mutates, self.variant = invariant, label, tuple(mutates), variant


class Contract(object):
    def __init__(self, key, kinds=None, requires=(), ensures=(), modifies=(), loops=None, self_class=None,
                 env_post=None, props=(), pure=False, notes="", ghost_init=None, setup=None, types=None,
                 raises_only=None, asserts=None, axioms=None):
        self.key = key
        self.kinds = kinds or {}
        self.requires = list(requires)
        self.ensures = list(ensures)
        self.modifies = list(modifies)
        self.loops = loops or {}
        self.self_class = self_class
        self.env_post = env_post
        self.props = tuple(props)
        self.notes = notes
        self.ghost_init = ghost_init
        self.setup = setup
        self.types = types or {}
        self.asserts = list(asserts or [])
        self.axioms = list(axioms or [])
        REGISTRY[key] = self

    @property
    def modname(self):
        return self.key.rsplit(".", 2)[0] if self.key.count(".") >= 3 and self.key.split(".")[-2][:1].isupper() \
            else self.key.rsplit(".", 1)[0]

    @property
    def qualname(self):
        return self.key[len(self.modname) + 1:]


def get(key):
    return REGISTRY.get(key)


class Registry(object):
    def get(self, key):
        return REGISTRY.get(key)


# -------------------------------------------------------------------------------------------------------
class Ctx(object):
    """What a contract formula can see."""

    def __init__(self, ex, args, old_heap_of, new_heap_of, old_ghost, new_ghost, ret, raised, exc, param_after,
                 st=None):
        self.ex = ex
        self.args = args                 # name -> executor value
        self._old, self._new = old_heap_of, new_heap_of
        self.old_ghost, self.new_ghost = old_ghost, new_ghost
        self.ret, self.raised, self.exc = ret, raised, exc
        self.param_after = param_after   # name -> Val after the call (mutated containers)
        self.st = st
        self.a = _Args(self)

    # heap
    def old(self, obj, field):
        return z3.Select(self._old(field), Val.ref(obj))

    def new(self, obj, field):
        return z3.Select(self._new(field), Val.ref(obj))

    def old_arr(self, field):
        return self._old(field)

    def new_arr(self, field):
        return self._new(field)

    def gold(self, name):
        return self.old_ghost(name)

    def gnew(self, name):
        return self.new_ghost(name)

    def after(self, name):
        return self.param_after(name)

    # outcome helpers
    @property
    def returns(self):
        return z3.Not(self.raised)

    def exc_cls(self):
        return C.cls_of(Val.ref(self.exc))

    def raises(self, pycls):
        """raised and the exception class is a subclass of pycls"""
        return z3.And(self.raised, C.subclass(self.exc_cls(), pycls))

    def raises_exactly(self, pycls):
        return z3.And(self.raised, C.exact(self.exc_cls(), pycls))

    def exc_args(self):
        return z3.Select(self._new("args"), Val.ref(self.exc))

    def isinstance(self, v, pycls):
        return z3.And(V.is_obj(v), C.subclass(C.cls_of(Val.ref(v)), pycls))

    def preexisting(self, r):
        """the reference r denotes an object that existed before the call"""
        from .symexec import ALLOC0
        lo, hi = getattr(self, "block", (None, None))
        return r < (lo if lo is not None else ALLOC0)

    def fresh_obj(self, v):
        """v is an instance allocated during the call"""
        from .symexec import ALLOC0
        lo, hi = getattr(self, "block", (None, None))
        if lo is not None:
            return z3.And(V.is_obj(v), Val.ref(v) >= lo, Val.ref(v) < hi)
        return z3.And(V.is_obj(v), Val.ref(v) >= ALLOC0)


class _Args(object):
    def __init__(self, ctx):
        self._ctx = ctx

    def __getattr__(self, name):
        try:
            return self._ctx.args[name]
        except KeyError:
            raise AttributeError(name)


# -------------------------------------------------------------------------------------------------------
def bind_arguments(fn, args, kwargs, ex):
    """Python's argument binding for a real function object; defaults come from the real signature.
    Returns ordered dict name -> executor value."""
    from .symexec import Star, Meta
    sig = inspect.signature(fn)
    pos = []
    for a in args:
        if isinstance(a, Star):
            raise Unsupported("*args at a call to a function under contract")
        pos.append(a)
    kw = dict(kwargs)
    if "**" in kw:
        raise Unsupported("**kwargs at a call to a function under contract")
    try:
        ba = sig.bind(*pos, **kw)
    except TypeError as e:
        raise Unsupported("call does not bind: %s" % e)
    out = {}
    for name, p in sig.parameters.items():
        if name in ba.arguments:
            v = ba.arguments[name]
            if p.kind == p.VAR_POSITIONAL:
                from .symexec import BoundMeth as _BM
                v = V.mk_tuple([(ex.reify(None, x) if isinstance(x, _BM) else ex.lift(x)) for x in v])
            elif p.kind == p.VAR_KEYWORD:
                d = V.empty_dict()
                for k2, v2 in v.items():
                    d = V.VDict(Val.dlen(d) + 1, z3.Store(Val.dhas(d), V.KS(z3.StringVal(k2)), True),
                                z3.Store(Val.dget(d), V.KS(z3.StringVal(k2)), ex.lift(v2)))
                v = d
            out[name] = v
        elif p.kind == p.VAR_POSITIONAL:
            out[name] = V.mk_tuple([])
        elif p.kind == p.VAR_KEYWORD:
            out[name] = V.empty_dict()
        else:
            out[name] = default_value(ex, p.default)
    return out


def default_value(ex, d):
    """default argument object from the real signature -> executor value."""
    from .symexec import Meta
    if d is None or isinstance(d, (bool, int, float, str, bytes)):
        return ex.const(d)
    return ex.env.trusted.default_object(ex, d)


USED_CONTRACTS = set()        # keys of the contracts applied at call sites while the current function was executed


class CallCtx(object):
    @staticmethod
    def apply(ex, st, con, fn, args, kwargs, text):
        """Use contract `con` at a call site: assert requires, havoc the frame, assume ensures."""
        from .symexec import Obligation, Meta
        USED_CONTRACTS.add(con.key)
        bound = bind_arguments(fn, args, kwargs, ex)
        st = st.copy()
        from .symexec import BoundMeth
        bound = {k: (ex.reify(st, v) if isinstance(v, BoundMeth) else ex.lift(v)) for k, v in bound.items()}
        tag = "%s" % V._counter[0]
        # static class knowledge for arguments declared as instances
        for name, v in bound.items():
            t = con.types.get(name)
            if t is not None and z3.is_expr(v):
                st.settype(v, ex.env.fields.resolve(t))
        old_heap = dict(st.heap)
        old_ghost = dict(st.ghost)

        def old_of(field, _st=st, _old=old_heap):
            if field in _old:
                return _old[field]
            return _st.field_arr(field) if field not in _st.heap else _old.get(field, _st.heap0[field])

        # make sure every array we may need exists before snapshotting
        ret = V.fresh("ret")
        raised = V.fresh("raised", z3.BoolSort())
        excref = V.fresh("excref", z3.IntSort())
        exc = V.VObj(excref)
        param_after = {}
        pre_ctx = Ctx(ex, bound, lambda f: st.field_arr(f), lambda f: st.field_arr(f),
                      lambda g: ex.env.trusted.ghost(st, g), lambda g: ex.env.trusted.ghost(st, g),
                      ret, z3.BoolVal(False), exc, lambda n: bound[n], st)
        for label, fn_req in con.requires:
            goal = fn_req(pre_ctx)
            st.obligations.append(Obligation("%s/pre-of[%s:%s]" % (ex.env.fn.key, con.key, label), st.hyps(), goal, st.sig,
                                             "pre-of", label, con.props))
            st.assume(goal)
        # caller-side assertions keyed by callee: "at the call to X the arguments satisfy ..."
        mine = ex.env.contract
        for label, callee_key, fn_as, props in (getattr(mine, "asserts", None) or []):
            if callee_key == con.key:
                from .loops import LoopCtx
                L = LoopCtx(ex, st, st, None, None, None)
                goal = fn_as(pre_ctx, L)
                st.obligations.append(Obligation("%s/assert[%s@%s]" % (ex.env.fn.key, label, con.key), st.hyps(), goal,
                                                 st.sig, "assert", label, props or mine.props))
        # snapshot old heap arrays lazily: old(field) is whatever the array was before havoc
        snap = {}

        def old_arr(field):
            if field not in snap:
                snap[field] = old_heap[field] if field in old_heap else st.heap0.get(field) \
                    if field in st.heap0 else None
                if snap[field] is None:
                    # never touched so far: create the initial array and use it as both old and (unless
                    # modified) new
                    snap[field] = st.field_arr(field) if field not in new_arrays else _init(st, field)
            return snap[field]

        new_arrays = {}
        # havoc the frame
        for m in con.modifies:
            if isinstance(m, Field):
                base = old_heap[m.name] if m.name in old_heap else _init(st, m.name)
                snap[m.name] = base
                if m.obj is None:
                    arr = z3.Array("H!%s!%s" % (m.name, tag), z3.IntSort(), Val)
                else:
                    target = m.obj(pre_ctx)
                    cur = new_arrays.get(m.name, base)
                    nv = V.fresh("new_" + m.name)
                    arr = z3.Store(cur, Val.ref(target), nv)
                new_arrays[m.name] = arr
            elif isinstance(m, Fresh):
                base = new_arrays.get(m.name)
                if base is None:
                    base = old_heap[m.name] if m.name in old_heap else _init(st, m.name)
                    snap[m.name] = base
                hav = z3.Array("H!%s!%s" % (m.name, tag), z3.IntSort(), Val)
                from .symexec import ALLOC0 as _A0
                r = z3.Int("r!fresh")
                # pre-existing objects keep their value; only references allocated by the callee are havocked
                arr = z3.Lambda([r], z3.If(r < st.aptr, z3.Select(base, r), z3.Select(hav, r)))
                new_arrays[m.name] = arr
            elif isinstance(m, Param):
                param_after[m.name] = V.fresh("after_" + m.name)
            elif isinstance(m, Ghost):
                pass
        for f, arr in new_arrays.items():
            st.heap[f] = arr
        new_ghost_vals = {}
        for m in con.modifies:
            if isinstance(m, Ghost):
                old_ghost[m.name] = ex.env.trusted.ghost(st, m.name)      # value before the call
                new_ghost_vals[m.name] = V.fresh("ghost_" + m.name, ex.env.trusted.ghost_sort(m.name))

        def new_arr(field):
            return st.field_arr(field)

        def gold(name):
            return old_ghost[name] if name in old_ghost else ex.env.trusted.ghost(st, name)

        def gnew(name):
            return new_ghost_vals[name] if name in new_ghost_vals else gold(name)

        # exceptions raised by the callee are allocated by it
        from .symexec import ALLOC0
        # the callee may allocate: reserve a block of references for it (objects it creates live there)
        blk = V.fresh("nalloc", z3.IntSort())
        st.assume(blk >= 0)
        lo = st.aptr
        st.aptr = z3.simplify(st.aptr + blk)
        post_ctx = Ctx(ex, bound, old_arr, new_arr, gold, gnew, ret, raised, exc,
                       lambda n: param_after.get(n, bound[n]), st)
        post_ctx.block = (lo, st.aptr)
        for k, v in new_ghost_vals.items():
            st.ghost[k] = v
        from . import solve as _solve
        for label, fn_ens, props in con.ensures:
            st.assume(_solve.close_free(fn_ens(post_ctx)))
        for ax in C.unknown_class_axioms(C.cls_of(excref)):       # the raised class may be one the verifier does not know
            st.assume(z3.Implies(raised, ax))
        out = []
        for s2, tagk in ex.fork(st, [(z3.Not(raised), "ret"), (raised, "exc")], "call:" + con.key):
            # write mutated parameters back to the caller's variables is done by the caller through
            # `param_after`: we return them in the state notes for the executor's lvalue write-back
            s2 = s2.copy()
            if param_after:
                s2.notes.append(("param_after", dict(param_after), dict(bound)))
            if tagk == "ret":
                rt = con.types.get("return")
                if rt is not None:
                    s2.settype(ret, ex.env.fields.resolve(rt))
                out.append((s2, ("val", ret)))
            else:
                out.append((s2, ("raise", exc)))
        # mutated parameter containers: rebind caller-side names that hold the same term
        if param_after:
            for s2, oc in out:
                for pname, newv in param_after.items():
                    oldv = bound[pname]
                    for lname, lv in list(s2.locals.items()):
                        if z3.is_expr(lv) and z3.is_expr(oldv) and lv.eq(oldv):
                            s2.locals[lname] = newv
                            t = s2.typeof(oldv)
                            s2.settype(newv, t)
        return out


def _init(st, field):
    if field not in st.heap0:
        st.heap0[field] = z3.Array("H0!" + field, z3.IntSort(), z3.BoolSort() if field.startswith("?") else Val)
    if field not in st.heap:
        st.heap[field] = st.heap0[field]
    return st.heap0[field] if field not in st.heap else st.heap[field]
