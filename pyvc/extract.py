"""Extraction of the verified text: function bodies are re-read from $VERIF_REPO on every run.

Dropped (DESIGN 2.2): docstrings, comments, module-level code.  Nothing inside a function body."""
import ast
import hashlib
import importlib
import os
import sys

REPO = os.environ.get("VERIF_REPO", "/repo")
_cache = {}


def setup_path():
    if REPO not in sys.path:
        sys.path.insert(0, REPO)
    sys.dont_write_bytecode = True


def module_file(modname):
    return os.path.join(REPO, *modname.split(".")) + ".py"


def _parse(modname):
    if modname not in _cache:
        path = module_file(modname)
        with open(path, "r", encoding="utf-8") as fh:
            src = fh.read()
        _cache[modname] = (ast.parse(src, filename=path), src)
    return _cache[modname]


class FunctionText(object):
    def __init__(self, modname, qualname, node, cls_node, src):
        self.modname, self.qualname, self.node, self.cls_node = modname, qualname, node, cls_node
        body = list(node.body)
        if body and isinstance(body[0], ast.Expr) and isinstance(getattr(body[0], "value", None), ast.Constant) \
                and isinstance(body[0].value.value, str):
            body = body[1:]                     # docstring
        self.body = body
        self.text = ast.unparse(ast.FunctionDef(name=node.name, args=node.args, body=body or [ast.Pass()],
                                                decorator_list=node.decorator_list, returns=None,
                                                type_comment=None, lineno=0, col_offset=0,
                                                type_params=[]))
        self.sha256 = hashlib.sha256(self.text.encode("utf-8")).hexdigest()
        self.lines = (node.lineno, node.end_lineno)
        self.decorators = [ast.unparse(d) for d in node.decorator_list]

    @property
    def key(self):
        return "%s.%s" % (self.modname, self.qualname)


def get_function(modname, qualname):
    """FunctionText for e.g. ('jsonrpclib.jsonrpc', 'Payload.request')."""
    tree, src = _parse(modname)
    parts = qualname.split(".")
    scope, cls_node = tree, None
    for p in parts[:-1]:
        for n in scope.body:
            if isinstance(n, ast.ClassDef) and n.name == p:
                scope, cls_node = n, n
                break
        else:
            raise KeyError("%s.%s: class %s not found" % (modname, qualname, p))
    cands = [n for n in ast.walk(scope) if isinstance(n, (ast.FunctionDef,)) and n.name == parts[-1]] \
        if scope is tree else [n for n in scope.body if isinstance(n, ast.FunctionDef) and n.name == parts[-1]]
    if scope is tree:
        # module-level function: may sit inside `if`/`try` blocks (utils), take the one Python would bind
        cands = _module_level_defs(tree, parts[-1])
    if not cands:
        raise KeyError("%s.%s not found" % (modname, qualname))
    return FunctionText(modname, qualname, cands[-1], cls_node, src)


def _module_level_defs(tree, name):
    """function definitions reachable at module level without entering classes/functions; for
    version-dependent definitions (utils.to_bytes) keep the Python 3 branch."""
    out = []

    def visit(stmts):
        for n in stmts:
            if isinstance(n, ast.FunctionDef) and n.name == name:
                out.append(n)
            elif isinstance(n, ast.If):
                txt = ast.unparse(n.test)
                if "sys.version_info[0] < 3" in txt:
                    visit(n.orelse)
                else:
                    visit(n.body)
                    visit(n.orelse)
            elif isinstance(n, ast.Try):
                visit(n.body)
                if not any(isinstance(x, ast.FunctionDef) and x.name == name for x in n.body):
                    for h in n.handlers:
                        visit(h.body)
    visit(tree.body)
    return out[:1] if out else out


def real_module(modname):
    setup_path()
    return importlib.import_module(modname)


def real_object(modname, qualname):
    obj = real_module(modname)
    for p in qualname.split("."):
        obj = getattr(obj, p) if not p.startswith("__") or p.endswith("__") else _mangled(obj, p)
    return obj


def _mangled(owner, name):
    if isinstance(owner, type):
        return getattr(owner, "_%s%s" % (owner.__name__.lstrip("_"), name))
    return getattr(owner, name)
