"""`jsonv(v)`: v was produced by json.loads (recursively built from None/bool/int/float/str/list/dict with
str keys).  The predicate is uninterpreted; its unfolding is added as ground facts whenever a component of
a value is taken (DESIGN 2.5: recursive specification functions are unfolded at the terms that occur)."""
import z3
from . import vals as V
from .vals import Val

jsonv = z3.Function("jsonv", Val, z3.BoolSort())


def json_tags(v):
    return z3.Or(V.is_none(v), V.is_bool(v), V.is_int(v), V.is_float(v), V.is_str(v), V.is_list(v), V.is_dict(v))


def top(v):
    """facts about a value known to be jsonv"""
    return z3.Implies(jsonv(v), json_tags(v))


def component(container, comp):
    return z3.Implies(jsonv(container), z3.And(jsonv(comp), json_tags(comp)))
