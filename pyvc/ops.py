"""Operator table (DESIGN 2.4): for every primitive operation, per operand tags, the result or the
exception class.  Each entry returns a list of alternatives

    (guard, ("val", term))  |  (guard, ("raise", PyExceptionClass))

whose guards are mutually exclusive and exhaustive over the Val datatype.  The table is executed on
concrete witnesses against CPython by pyvc.selftest on every run.
"""
import z3
from . import vals as V
from .vals import Val

TRUE = z3.BoolVal(True)


class Unsupported(Exception):
    pass


def val(t):
    return ("val", t)


def rz(cls):
    return ("raise", cls)


# --- keys ------------------------------------------------------------------------------------------
key_id = z3.Function("key_id", Val, z3.IntSort())      # opaque identity of other hashable keys


def hashable(v):
    return z3.Not(z3.Or(V.is_list(v), V.is_dict(v), z3.And(V.is_set(v), z3.Not(Val.frozen(v)))))


def _to_key_def(v):
    """dict key for a hashable Val (1 == True == 1.0 fold together as in Python)."""
    isint_float = z3.And(V.is_float(v), z3.IsInt(Val.r(v)))
    return z3.If(V.is_str(v), V.KS(Val.s(v)),
           z3.If(V.is_int(v), V.KI(Val.i(v)),
           z3.If(V.is_bool(v), V.KI(z3.If(Val.b(v), 1, 0)),
           z3.If(isint_float, V.KI(z3.ToInt(Val.r(v))),
           z3.If(V.is_type(v), V.KO(Val.tid(v)),
                 V.KO(key_id(v)))))))


def key_to_val(k):
    """the Val a dict iteration yields for key k (str and int keys exact; others opaque)."""
    return z3.If(V.Key.is_KS(k), V.VStr(V.Key.ks(k)),
           z3.If(V.Key.is_KI(k), V.VInt(V.Key.ki(k)), key_val(k)))


key_val = z3.Function("key_val", V.Key, Val)


# --- equality ---------------------------------------------------------------------------------------
_eqc = z3.Function("container_eq", Val, Val, z3.BoolSort())   # Python == on two containers of the same kind


def _py_eq_def(a, b):
    """formula for Python's a == b (never raises for the modelled types; instances compare by
    identity: no class in the repository defines __eq__)."""
    both_num = z3.And(V.is_numeric(a), V.is_numeric(b))
    both_prim = z3.And(V.is_primitive(a), V.is_primitive(b))
    same_kind_cont = z3.Or(z3.And(V.is_list(a), V.is_list(b)), z3.And(V.is_tuple(a), V.is_tuple(b)),
                           z3.And(V.is_set(a), V.is_set(b)), z3.And(V.is_dict(a), V.is_dict(b)))
    return z3.If(both_num, V.num(a) == V.num(b),
           z3.If(both_prim, a == b,
           z3.If(same_kind_cont, z3.Or(a == b, _eqc(a, b)),
                 a == b)))


py_eq = V._define("py_eq", [Val, Val, z3.BoolSort()], _py_eq_def)
to_key = V._define("to_key", [Val, V.Key], _to_key_def)


def container_eq_facts(a, b):
    """ground consequences of container equality that are safe to assume."""
    ln = lambda x: z3.If(V.is_dict(x), Val.dlen(x), V.seq_len(x))
    return [z3.Implies(_eqc(a, b), ln(a) == ln(b)), _eqc(a, b) == _eqc(b, a)]


# --- truthiness, len ----------------------------------------------------------------------------------
def op_len(v):
    return [
        (V.is_str(v), val(V.VInt(z3.Length(Val.s(v))))),
        (V.is_bytes(v), val(V.VInt(z3.Length(Val.y(v))))),
        (V.is_list(v), val(V.VInt(Val.llen(v)))),
        (V.is_tuple(v), val(V.VInt(Val.tlen(v)))),
        (V.is_set(v), val(V.VInt(Val.slen(v)))),
        (V.is_dict(v), val(V.VInt(Val.dlen(v)))),
        (z3.Or(V.is_none(v), V.is_bool(v), V.is_int(v), V.is_float(v), V.is_obj(v), V.is_fun(v),
               V.is_type(v)), rz(TypeError)),
    ]


# --- conversions ---------------------------------------------------------------------------------------
def trunc(r):
    return z3.If(r >= 0, z3.ToInt(r), -z3.ToInt(-r))


def op_int(v):
    """int(v): one value alternative (an if-then-else over the operand kinds) and one alternative per exception class"""
    s = Val.s(v)
    y = Val.y(v)
    okv = z3.Or(V.is_int(v), V.is_bool(v), V.is_float(v), z3.And(V.is_str(v), V.int_str_ok(s)),
                z3.And(V.is_bytes(v), V.int_str_ok(y)))
    value = z3.If(V.is_int(v), Val.i(v), z3.If(V.is_bool(v), z3.If(Val.b(v), 1, 0),
            z3.If(V.is_float(v), trunc(Val.r(v)), z3.If(V.is_str(v), V.int_of_str(s), V.int_of_str(y)))))
    return [
        (okv, val(V.VInt(value))),
        (z3.Or(z3.And(V.is_str(v), z3.Not(V.int_str_ok(s))), z3.And(V.is_bytes(v), z3.Not(V.int_str_ok(y)))), rz(ValueError)),
        (z3.Or(V.is_none(v), V.is_list(v), V.is_tuple(v), V.is_set(v), V.is_dict(v), V.is_obj(v),
               V.is_fun(v), V.is_type(v)), rz(TypeError)),
    ]


def op_float(v):
    s = Val.s(v)
    y = Val.y(v)
    okv = z3.Or(V.is_int(v), V.is_bool(v), V.is_float(v), z3.And(V.is_str(v), V.float_str_ok(s)),
                z3.And(V.is_bytes(v), V.float_str_ok(y)))
    value = z3.If(V.is_int(v), z3.ToReal(Val.i(v)), z3.If(V.is_bool(v), z3.If(Val.b(v), z3.RealVal(1), z3.RealVal(0)),
            z3.If(V.is_float(v), Val.r(v), z3.If(V.is_str(v), V.float_of_str(s), V.float_of_str(y)))))
    return [
        (okv, val(V.VFloat(value))),
        (z3.Or(z3.And(V.is_str(v), z3.Not(V.float_str_ok(s))), z3.And(V.is_bytes(v), z3.Not(V.float_str_ok(y)))), rz(ValueError)),
        (z3.Or(V.is_none(v), V.is_list(v), V.is_tuple(v), V.is_set(v), V.is_dict(v), V.is_obj(v),
               V.is_fun(v), V.is_type(v)), rz(TypeError)),
    ]


# --- subscription ----------------------------------------------------------------------------------------
def norm_index(i, n):
    return z3.If(i < 0, i + n, i)


def op_getitem(x, k):
    ki = z3.If(V.is_bool(k), z3.If(Val.b(k), 1, 0), Val.i(k))
    k_is_index = z3.Or(V.is_int(k), V.is_bool(k))
    key = to_key(k)
    alts = [
        (z3.And(V.is_dict(x), z3.Not(hashable(k))), rz(TypeError)),
        (z3.And(V.is_dict(x), hashable(k), V.dict_has(x, key)), val(V.dict_get(x, key))),
        (z3.And(V.is_dict(x), hashable(k), z3.Not(V.dict_has(x, key))), rz(KeyError)),
    ]
    for tst, ln, at in ((V.is_list, Val.llen, Val.lat), (V.is_tuple, Val.tlen, Val.tat)):
        n = ln(x)
        j = norm_index(ki, n)
        alts += [
            (z3.And(tst(x), z3.Not(k_is_index)), rz(TypeError)),
            (z3.And(tst(x), k_is_index, j >= 0, j < n), val(z3.Select(at(x), j))),
            (z3.And(tst(x), k_is_index, z3.Not(z3.And(j >= 0, j < n))), rz(IndexError)),
        ]
    for tst, acc, mk in ((V.is_str, Val.s, V.VStr),):
        n = z3.Length(acc(x))
        j = norm_index(ki, n)
        alts += [
            (z3.And(tst(x), z3.Not(k_is_index)), rz(TypeError)),
            (z3.And(tst(x), k_is_index, j >= 0, j < n), val(mk(z3.SubString(acc(x), j, 1)))),
            (z3.And(tst(x), k_is_index, z3.Not(z3.And(j >= 0, j < n))), rz(IndexError)),
        ]
    n = z3.Length(Val.y(x))
    j = norm_index(ki, n)
    alts += [
        (z3.And(V.is_bytes(x), z3.Not(k_is_index)), rz(TypeError)),
        (z3.And(V.is_bytes(x), k_is_index, j >= 0, j < n), val(V.VInt(byte_at(Val.y(x), j)))),
        (z3.And(V.is_bytes(x), k_is_index, z3.Not(z3.And(j >= 0, j < n))), rz(IndexError)),
    ]
    alts.append((z3.Or(V.is_none(x), V.is_bool(x), V.is_int(x), V.is_float(x), V.is_set(x), V.is_obj(x),
                       V.is_fun(x), V.is_type(x)), rz(TypeError)))
    return alts


byte_at = z3.Function("byte_at", z3.StringSort(), z3.IntSort(), z3.IntSort())

# --- membership -----------------------------------------------------------------------------------------
_member = z3.Function("seq_member", Val, Val, z3.BoolSort())       # x in <list/tuple/set> (by ==)


def member_unfold(x, c):
    """x in c for a list/tuple/set: concatenations and literal stores are unfolded structurally"""
    cs = c
    if z3.is_app(cs) and cs.decl().name() == "seq_concat":
        return z3.Or(member_unfold(x, cs.arg(0)), member_unfold(x, cs.arg(1)))
    sc = z3.simplify(cs)
    if z3.is_app(sc) and sc.decl().name() in ("VList", "VTuple") and z3.is_int_value(sc.arg(0)) and sc.arg(0).as_long() <= 6:
        n = sc.arg(0).as_long()
        at = sc.arg(1)
        return z3.Or(*[py_eq(x, z3.simplify(z3.Select(at, z3.IntVal(j)))) for j in range(n)]) if n else z3.BoolVal(False)
    return _member(x, c)


def op_in(x, c, exact_items=None):
    """`x in c`.  exact_items: the element terms when c is a literal of known length."""
    if exact_items is not None:
        mem = z3.Or(*[py_eq(x, e) for e in exact_items]) if exact_items else z3.BoolVal(False)
    else:
        mem = z3.And(member_unfold(x, c), V.seq_len(c) > 0)
    key = to_key(x)
    return [
        (z3.And(V.is_dict(c), z3.Not(hashable(x))), rz(TypeError)),
        (z3.And(V.is_dict(c), hashable(x)), val(V.VBool(V.dict_has(c, key)))),
        (z3.And(V.is_str(c), V.is_str(x)), val(V.VBool(z3.Contains(Val.s(c), Val.s(x))))),
        (z3.And(V.is_str(c), z3.Not(V.is_str(x))), rz(TypeError)),
        (z3.And(V.is_bytes(c), V.is_bytes(x)), val(V.VBool(z3.Contains(Val.y(c), Val.y(x))))),
        (z3.And(V.is_bytes(c), z3.Not(V.is_bytes(x))), rz(TypeError)),   # ints also allowed; not used
        (z3.Or(V.is_list(c), V.is_tuple(c)), val(V.VBool(mem))),
        (z3.And(V.is_set(c), hashable(x)), val(V.VBool(mem))),
        (z3.And(V.is_set(c), z3.Not(hashable(x))), rz(TypeError)),
        (z3.Or(V.is_none(c), V.is_bool(c), V.is_int(c), V.is_float(c), V.is_obj(c), V.is_fun(c),
               V.is_type(c)), rz(TypeError)),
    ]


# --- ordering ----------------------------------------------------------------------------------------------
_str_lt = z3.Function("str_lt", z3.StringSort(), z3.StringSort(), z3.BoolSort())


def op_compare(op, a, b):
    """a < b, a <= b, a > b, a >= b."""
    both_num = z3.And(V.is_numeric(a), V.is_numeric(b))
    both_str = z3.And(V.is_str(a), V.is_str(b))
    na, nb = V.num(a), V.num(b)
    sa, sb = Val.s(a), Val.s(b)
    num_res = {"<": na < nb, "<=": na <= nb, ">": na > nb, ">=": na >= nb}[op]
    str_res = {"<": _str_lt(sa, sb), "<=": z3.Or(sa == sb, _str_lt(sa, sb)),
               ">": _str_lt(sb, sa), ">=": z3.Or(sa == sb, _str_lt(sb, sa))}[op]
    return [
        (both_num, val(V.VBool(num_res))),
        (both_str, val(V.VBool(str_res))),
        (z3.Not(z3.Or(both_num, both_str, _both_seq(a, b))), rz(TypeError)),
        (_both_seq(a, b), ("unsupported", "ordering of sequences")),
    ]


def _both_seq(a, b):
    return z3.Or(z3.And(V.is_list(a), V.is_list(b)), z3.And(V.is_tuple(a), V.is_tuple(b)),
                 z3.And(V.is_bytes(a), V.is_bytes(b)), z3.And(V.is_set(a), V.is_set(b)))


# --- arithmetic -----------------------------------------------------------------------------------------------
_concat = z3.Function("seq_concat", Val, Val, Val)


def op_add(a, b):
    both_int = z3.And(z3.Or(V.is_int(a), V.is_bool(a)), z3.Or(V.is_int(b), V.is_bool(b)))
    both_num = z3.And(V.is_numeric(a), V.is_numeric(b))
    ia = z3.If(V.is_bool(a), z3.If(Val.b(a), 1, 0), Val.i(a))
    ib = z3.If(V.is_bool(b), z3.If(Val.b(b), 1, 0), Val.i(b))
    both_list = z3.And(V.is_list(a), V.is_list(b))
    both_tuple = z3.And(V.is_tuple(a), V.is_tuple(b))
    return [
        (both_int, val(V.VInt(ia + ib))),
        (z3.And(both_num, z3.Not(both_int)), val(V.VFloat(V.num(a) + V.num(b)))),
        (z3.And(V.is_str(a), V.is_str(b)), val(V.VStr(z3.Concat(Val.s(a), Val.s(b))))),
        (z3.And(V.is_bytes(a), V.is_bytes(b)), val(V.VBytes(z3.Concat(Val.y(a), Val.y(b))))),
        (both_list, val(_concat(a, b))),
        (both_tuple, val(_concat(a, b))),
        (z3.Not(z3.Or(both_num, z3.And(V.is_str(a), V.is_str(b)), z3.And(V.is_bytes(a), V.is_bytes(b)),
                      both_list, both_tuple)), rz(TypeError)),
    ]


def concat_facts(a, b):
    r = _concat(a, b)
    return [z3.Implies(z3.And(V.is_list(a), V.is_list(b)),
                       z3.And(V.is_list(r), Val.llen(r) == Val.llen(a) + Val.llen(b))),
            z3.Implies(z3.And(V.is_tuple(a), V.is_tuple(b)),
                       z3.And(V.is_tuple(r), Val.tlen(r) == Val.tlen(a) + Val.tlen(b)))]


def op_sub(a, b):
    both_int = z3.And(z3.Or(V.is_int(a), V.is_bool(a)), z3.Or(V.is_int(b), V.is_bool(b)))
    both_num = z3.And(V.is_numeric(a), V.is_numeric(b))
    ia = z3.If(V.is_bool(a), z3.If(Val.b(a), 1, 0), Val.i(a))
    ib = z3.If(V.is_bool(b), z3.If(Val.b(b), 1, 0), Val.i(b))
    return [
        (both_int, val(V.VInt(ia - ib))),
        (z3.And(both_num, z3.Not(both_int)), val(V.VFloat(V.num(a) - V.num(b)))),
        (z3.Not(both_num), rz(TypeError)),      # set difference is not used by the verified code
    ]


def op_mul(a, b):
    both_int = z3.And(z3.Or(V.is_int(a), V.is_bool(a)), z3.Or(V.is_int(b), V.is_bool(b)))
    ia = z3.If(V.is_bool(a), z3.If(Val.b(a), 1, 0), Val.i(a))
    ib = z3.If(V.is_bool(b), z3.If(Val.b(b), 1, 0), Val.i(b))
    both_num = z3.And(V.is_numeric(a), V.is_numeric(b))
    return [
        (both_int, val(V.VInt(ia * ib))),
        (z3.And(both_num, z3.Not(both_int)), val(V.VFloat(V.num(a) * V.num(b)))),
        (z3.Not(both_num), ("unsupported", "sequence repetition")),
    ]


def op_neg(a):
    ia = z3.If(V.is_bool(a), z3.If(Val.b(a), 1, 0), Val.i(a))
    return [
        (z3.Or(V.is_int(a), V.is_bool(a)), val(V.VInt(-ia))),
        (V.is_float(a), val(V.VFloat(-Val.r(a)))),
        (z3.Not(V.is_numeric(a)), rz(TypeError)),
    ]


# --- type names --------------------------------------------------------------------------------------------------
def tag_type_name(v, obj_name):
    """type(v).__name__ ; obj_name: term giving the class name when v is an instance."""
    sv = z3.StringVal
    return z3.If(V.is_none(v), sv("NoneType"),
           z3.If(V.is_bool(v), sv("bool"),
           z3.If(V.is_int(v), sv("int"),
           z3.If(V.is_float(v), sv("float"),
           z3.If(V.is_str(v), sv("str"),
           z3.If(V.is_bytes(v), sv("bytes"),
           z3.If(V.is_list(v), sv("list"),
           z3.If(V.is_tuple(v), sv("tuple"),
           z3.If(V.is_set(v), z3.If(Val.frozen(v), sv("frozenset"), sv("set")),
           z3.If(V.is_dict(v), sv("dict"),
           z3.If(V.is_obj(v), obj_name,
           z3.If(V.is_type(v), sv("type"), sv("function")))))))))))))


# builtin type -> id used for VType values of builtin types (negative, disjoint from class ids)
BUILTIN_TYPE_IDS = {type(None): -1, bool: -2, int: -3, float: -4, str: -5, bytes: -6, list: -7,
                    tuple: -8, set: -9, frozenset: -10, dict: -11, type: -12}


def type_id(v, cls_of):
    return z3.If(V.is_none(v), -1, z3.If(V.is_bool(v), -2, z3.If(V.is_int(v), -3,
           z3.If(V.is_float(v), -4, z3.If(V.is_str(v), -5, z3.If(V.is_bytes(v), -6,
           z3.If(V.is_list(v), -7, z3.If(V.is_tuple(v), -8,
           z3.If(V.is_set(v), z3.If(Val.frozen(v), -10, -9),
           z3.If(V.is_dict(v), -11, z3.If(V.is_obj(v), z3.If(cls_of(Val.ref(v)) >= 1, cls_of(Val.ref(v)), 999999),
           z3.If(V.is_type(v), -12, -13))))))))))))


def isinstance_formula(v, pytypes, subclass, cls_of):
    """isinstance(v, pytypes) for a Val; pytypes is a tuple of real Python classes."""
    alts = []
    for t in pytypes:
        if t is dict:
            alts.append(V.is_dict(v))
        elif t is list:
            alts.append(V.is_list(v))
        elif t is tuple:
            alts.append(V.is_tuple(v))
        elif t is set:
            alts.append(z3.And(V.is_set(v), z3.Not(Val.frozen(v))))
        elif t is frozenset:
            alts.append(z3.And(V.is_set(v), Val.frozen(v)))
        elif t is str:
            alts.append(V.is_str(v))
        elif t is bytes:
            alts.append(V.is_bytes(v))
        elif t is bool:
            alts.append(V.is_bool(v))
        elif t is int:
            alts.append(z3.Or(V.is_int(v), V.is_bool(v)))
        elif t is float:
            alts.append(V.is_float(v))
        elif t is type(None):
            alts.append(V.is_none(v))
        elif t is object:
            alts.append(z3.BoolVal(True))
        elif t is type:
            alts.append(V.is_type(v))
        elif isinstance(t, type):
            alts.append(z3.And(V.is_obj(v), subclass(cls_of(Val.ref(v)), t)))
        else:
            raise Unsupported("isinstance against %r" % (t,))
    return z3.Or(*alts) if alts else z3.BoolVal(False)
