import argparse
import importlib
import json
import os
import sys

HERE = os.path.dirname(os.path.dirname(os.path.abspath(__file__)))
sys.path.insert(0, HERE)


def main():
    ap = argparse.ArgumentParser(prog="verif")
    sub = ap.add_subparsers(dest="cmd")
    c = sub.add_parser("check")
    c.add_argument("pid")
    c.add_argument("--tier", default=os.environ.get("VERIF_TIER", "quick"))
    r = sub.add_parser("replay")
    r.add_argument("path")
    f = sub.add_parser("fn")
    f.add_argument("key")
    sub.add_parser("selftest")
    a = ap.parse_args()
    seed = int(os.environ.get("VERIF_SEED", "0") or 0)
    from pyvc import runner
    if a.cmd == "check":
        try:
            mod = importlib.import_module("props." + a.pid)
            extra = getattr(mod, "EXTRA_CHECKS", None)
        except ImportError:
            extra = None
        try:
            code = runner.check_property(a.pid, a.tier, seed, extra)
        except Exception:
            import traceback
            traceback.print_exc()
            print("FAULT property=%s checker crashed" % a.pid)
            code = 3
        sys.exit(code)
    if a.cmd == "fn":
        runner.load_all()
        out = runner._verify_one(a.key)
        for o in out["obligations"]:
            if o["status"] != "discharged":
                print(o["status"], o["name"], o["sig"][-5:], (o.get("extra") or {}).get("conjunct", ""), json.dumps(o.get("cex"), default=str)[:300])
        print(out["status"], out["message"], "paths", out["paths"], "obligations", len(out["obligations"]),
              "discharged", sum(1 for o in out["obligations"] if o["status"] == "discharged"), "secs", out["secs"])
        sys.exit(0)
    if a.cmd == "replay":
        from pyvc import replay
        sys.exit(replay.main(a.path))
    if a.cmd == "selftest":
        from pyvc import selftest
        sys.exit(selftest.main())
    ap.print_help()
    sys.exit(3)


if __name__ == "__main__":
    main()
