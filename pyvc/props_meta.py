"""Per-property text that goes into the evidence files (assumptions, trusted base, clauses not decided)."""
ENGINE_ASSUMPTIONS = [
    "pyvc is a verification-condition generator written for this task: soundness rests on its operator table "
    "(pyvc/ops.py, pyvc/builtins_model.py; cross-checked against CPython by pyvc.selftest) and on the trusted "
    "contracts of pyvc/trusted.py and contracts/base.py",
    "integers are mathematical; floats are finite reals (NaN/Infinity outside the model)",
    "partial correctness: RecursionError/MemoryError and non-termination are outside the model",
    "mutable containers have value semantics (no two live names for one mutated container in the verified functions)",
]

META = {}


def meta(pid, **kw):
    kw.setdefault("level", "proof")
    kw["assumptions"] = list(kw.get("assumptions", [])) + ENGINE_ASSUMPTIONS
    META[pid] = kw


meta("C06",
     explanation="check_for_errors is executed symbolically for an arbitrary JSON reply value; every clause of "
                 "the statement is a postcondition discharged on every path; the call sites "
                 "(ServerProxy._request/_request_notify, MultiCallIterator) are checked against its contract.",
     trusted_base=["json value datatype: replies are values json.loads can return"],
     assumptions=["reply envelope: 'jsonrpc' member absent or the string '2.0'/'1.0'"],
     not_decided=[])

meta("C14",
     explanation="One postcondition per sentence of the statement on Payload.request/notify/response/error, Fault.*, "
                 "dump, dumps, load, loads; exact member sets are equalities between key-set arrays; the generated-id "
                 "rule uses the ghost counter of the trusted uuid4 contract (distinct ids by injectivity of uuid_str).",
     trusted_base=["uuid.uuid4: str() non-empty, distinct per call (ghost uuid_ctr)",
                   "json.dumps: total on JSON-representable values else TypeError; json.loads: value or ValueError",
                   "jc_dump / jc_load: specification functions for the class translator, constrained by the contracts "
                   "of jsonclass.dump / jsonclass.load"],
     assumptions=["version arguments and Config.version range over {1.0, 2.0, 1, 2, '1.0', '2.0'}",
                  "bool and empty-container ids are neither 'supplied' nor 'absent' in the statement: unconstrained"],
     not_decided=["loads(dumps(x)) == N(x) is the composition of the dumps/loads contracts with the trusted JSON "
                  "round-trip axiom; it is stated in C01's lemma, not re-proved here"])

_DISP_TB = ['environment callable: appends to ghost call_log, returns any non-Fault value or raises any Exception; bind_err only for a TypeError raised while binding arguments', "json.loads / json.dumps contracts; traceback.format_exception: last line is '<type name>: <str(exc)>\\n'", "resolve_dotted_attribute(obj, name, True): AttributeError iff a segment starts with '_' or is missing", 'ThreadPool.enqueue contract (proved under C09): accepts a callable on an unbounded queue without running it inline']
meta("C02",
     explanation="_marshaled_dispatch is verified for every request text: the reply is '' or the JSON text of a response "
                 "object / non-empty list of response objects, each satisfying wf_response (written from the statement); "
                 "the batch loop carries the quantified invariant 'every collected response is well-formed'.",
     trusted_base=_DISP_TB,
     assumptions=["'never raises' is proved in the form: the dispatcher raises only if the JSON backend rejects the reply it "
                  "built (TypeError from json.dumps); that a reply built from JSON-representable results and ids is "
                  "serialisable is the trusted json.dumps contract, not proved",
                  "notification pools have unbounded queues (enqueue cannot raise queue.Full)"],
     not_decided=["HTTP status plumbing of do_POST"])
meta("C03",
     explanation="id echo is a postcondition of validate_request (Fault carries the id), _marshaled_single_dispatch "
                 "(every answered entry echoes request['id'], also on the exception paths) and of the batch loop "
                 "invariant: len(responses) == answered(batch, i) and the response owed to entry k sits at index "
                 "answered(batch, k) (answered is a recursive specification function).",
     trusted_base=_DISP_TB, assumptions=[], not_decided=[])
meta("C04",
     explanation="a well-formed entry whose id is absent/None/'' yields no response object on every path (return, raise, "
                 "unknown method, custom dispatcher); inline: the environment call log grows by exactly one entry when the "
                 "method is known; pooled: nothing is called inline and exactly one task is handed to enqueue.",
     trusted_base=_DISP_TB,
     assumptions=["pooled notifications: 'executed exactly once' is carried from the accepted task by C09's contract"],
     not_decided=["eventual execution of an accepted task by a pool worker (liveness)"])
meta("C05",
     explanation="the code table is a set of postconditions of _dispatch / _marshaled_single_dispatch / _marshaled_dispatch "
                 "over the environment model (unknown, private, bind error, method exception); 'nothing ran' is ghost "
                 "call_log unchanged.",
     trusted_base=_DISP_TB, assumptions=[], not_decided=["client-side surfacing is C06"])
meta("C13",
     explanation="frame clauses: no function on the serving path writes a field of the server's Config (config_unchanged "
                 "postconditions, loop invariant conjunct); the only Config written is the fresh object returned by "
                 "Config.copy; the reply form is a function of (has jsonrpc, server version).",
     trusted_base=_DISP_TB,
     assumptions=["containers have value semantics in the model: aliasing between the two configurations' dicts is "
                  "checked by a separate structural obligation on Config.copy (see evidence)"],
     not_decided=[])

_CLIENT_TB = ["xmlrpc.client.Transport.request: one exchange, records (host, target, body), returns the reply text or raises",
              "json.dumps/json.loads contracts; uuid4 distinctness"]
meta("C01",
     explanation="composition of verified contracts: _request (message text == JSON image of the dump() message with the method "
                 "name; exactly one exchange; result returned unchanged), the trusted wire, _marshaled_dispatch (registered "
                 "callable called exactly once with the params; reply carries the translated result and the id).",
     trusted_base=_CLIENT_TB + _DISP_TB,
     # the whole wire path counts for C01: every clause of these functions carries a piece of the transparency
     include=["jsonrpclib.jsonrpc.JSONTarget.__init__", "jsonrpclib.jsonrpc.JSONTarget.feed", "jsonrpclib.jsonrpc.JSONTarget.close",
              "jsonrpclib.jsonrpc.JSONParser.__init__", "jsonrpclib.jsonrpc.JSONParser.feed",
              "jsonrpclib.jsonrpc.TransportMixIn.getparser", "jsonrpclib.jsonrpc.TransportMixIn.send_content",
              "jsonrpclib.jsonrpc.TransportMixIn.single_request", "jsonrpclib.jsonrpc.TransportMixIn.send_request",
              "jsonrpclib.utils.to_bytes", "jsonrpclib.utils.from_bytes",
              "jsonrpclib.jsonrpc.loads", "jsonrpclib.jsonrpc.load", "jsonrpclib.jsonrpc.dump", "jsonrpclib.jsonrpc.check_for_errors",
              "jsonrpclib.SimpleJSONRPCServer.SimpleJSONRPCRequestHandler.do_POST",
              "jsonrpclib.SimpleJSONRPCServer.SimpleJSONRPCDispatcher._marshaled_dispatch",
              "jsonrpclib.SimpleJSONRPCServer.SimpleJSONRPCDispatcher._unmarshaled_dispatch"],
     assumptions=["sockets / http deliver bytes faithfully", "loads(dumps(x)) == N(x): trusted JSON round trip, exercised by the bounded stand-in"],
     not_decided=["MultiCall result ordering is covered through the server's batch invariant (C03) and a bounded stand-in only"])
meta("C07",
     explanation="structural induction on jsonclass.dump/load: element-wise and value-wise clauses with the configuration / class "
                 "table forwarded at every recursive call; bean fields set from values loaded with the same class table (loop "
                 "invariant over the ghost bean attribute map).",
     trusted_base=["jc_dump/jc_load determinism (assumed 'image' clauses)", "_find_fields: assumed contract (class reflection)",
                   "class constructors return new instances; setattr on a bean records the attribute"],
     assumptions=["supported shapes: no-argument constructible or custom serialise method; field values of supported types"],
     not_decided=["behaviour of user-defined __init__/__eq__"])
meta("C08",
     explanation="gates: with use_jsonclass off loads(t) is the plain JSON value and nothing is imported/constructed; with it on "
                 "nothing is loaded unless the name passed the character filter; lemma: the filter built from the real "
                 "INVALID_MODULE_CHARS leaves s unchanged iff s is in [A-Za-z0-9_.]*.",
     trusted_base=["re.sub(P, '', s) for a single character class", "__import__ / class call / setattr ghost logging"],
     assumptions=[], not_decided=[])
_POOL_TB = ["queue.Queue: linearizable FIFO with unfinished count; content invariant of the pool's queue (sentinel or 4-tuple)",
            "threading.Event/RLock/Thread/Condition contracts",
            "thread-modular rely: a counted (active) worker contributes one to __nb_threads (__nb_active_threads)"]
meta("C09", explanation="per-task protocol: enqueue puts one tuple under the lock; a worker iteration executes the task once and "
                        "calls task_done once on every path (loop invariant); execute stores the very object; stop/clear run nothing.",
     trusted_base=_POOL_TB, assumptions=["one controlling thread for start/stop", "tasks raise only Exception subclasses"],
     not_decided=["'is executed once the pool is running' in the sense of eventually (liveness): only within the bound of the schedule "
                  "harness (no lost task, no deadlock on the enumerated client programs)",
                  "FIFO start order with one worker (follows from the trusted FIFO contract and the single consumer; checked by the "
                  "schedule harness, not a separate obligation)"])
meta("C10", explanation="constructor clauses (linear integer), lock invariant nb_threads <= max_threads at every release, un-count "
                        "exactly once and atomically with the retire decision, safety core of the growth rule.",
     trusted_base=_POOL_TB, assumptions=["Thread.start failures are counted by the trusted model"],
     not_decided=["progress of mutually dependent tasks (liveness): only within the bound of the schedule harness (gate-dependent task "
                  "pairs terminate on every enumerated schedule)",
                  "'at least min_threads workers serve from start() to stop()' beyond start()'s own postcondition"])
meta("C11", explanation="join/clear/stop/start postconditions over the trusted Queue counters.", trusted_base=_POOL_TB,
     assumptions=[], not_decided=["stop() always returns (termination): only within the bound of the schedule harness",
                                  "wall-clock meaning of timeouts (the harness uses virtual time)"])
meta("C12", explanation="frame clauses of the serving path (handler-only state, server Config never written), one response per "
                        "request, process_request -> exactly one enqueue, server_close order; precondition of BaseServer.shutdown.",
     trusted_base=["socketserver: one handler instance per connection; BaseServer.shutdown requires serve_forever running "
                   "or about to run (CPython tests the shutdown request at loop entry)",
                   "http.server response primitives do not raise"] + _POOL_TB,
     # the request pool carries every connection of a pooled server: its accounting counts for "no lost or duplicated
     # executions" and "every worker of the request pool it stops terminates"
     include=["jsonrpclib.threadpool.ThreadPool.__run", "jsonrpclib.threadpool.ThreadPool.enqueue",
              "jsonrpclib.threadpool.ThreadPool.__start_thread", "jsonrpclib.threadpool.ThreadPool.stop",
              "jsonrpclib.threadpool.ThreadPool.start", "jsonrpclib.threadpool.ThreadPool.clear"],
     assumptions=["the published serving flag is raised only while serve_forever() is about to run / running: obligations "
                  "serving_flag_raised_before_the_loop and serving_flag_lowered_on_every_exit of PooledJSONRPCServer.serve_forever; "
                  "that other threads then observe flag => loop is a rely argument, not an obligation"],
     not_decided=["termination of shutdown(), OS scheduling, kernel socket behaviour"])
meta("C15", explanation="structural induction: primitives returned as the same value, sequences element-wise to lists, dicts "
                        "value-wise with the same keys; argument unchanged on every exit (frame on the parameter).",
     trusted_base=["jc_dump/jc_load determinism (assumed)"], assumptions=["sets are modelled positionally"], not_decided=[])
meta("C16", explanation="EventData/FutureResult contracts; the registration slot is protected by the future's lock: lock discipline "
                        "(every access to callback/extra under the lock), atomic store of a registration and atomic consumption "
                        "(read and clear in one critical section) are obligations over the ghost slot log; ordering assertions at the "
                        "call sites (completion is looked at after the store; the outcome is published before consumption). The "
                        "whole-protocol conclusion (exactly once under every interleaving) is decided within a bound by the schedule "
                        "harness on the real code (see bounded_stand_ins).",
     trusted_base=["threading.Event / threading.Lock contracts"],
     assumptions=["quiescent states: an outcome is stored together with the flag",
                  "'once per registration' is read for registrations still in place at completion or made afterwards: the future "
                  "has a single callback slot, a registration replaced before completion is owed nothing"],
     not_decided=["wall-clock accuracy of timeouts", "callbacks raising BaseException"])
meta("C17", explanation="framing clauses on send_content/do_POST (ghost wire/out logs), request target, scheme rejection, client "
                        "reassembly (decode once), server read-loop invariant with call-site assertion.",
     trusted_base=["UTF-8 axioms: dec(enc(s)) == s, enc is valid", "urlparse attribute functions", "rfile.read: 1..n bytes or b'' at end"],
     assumptions=["Content-Length header, when it parses, is non-negative"], not_decided=["gzip decoding (stdlib; exercised by the framing harness only)"])
meta("C18", explanation="push/pop, restoration on both exits, protected names, fixed headers first; recency by exhaustive "
                        "enumeration (bounded).",
     trusted_base=["contextlib.contextmanager: the body's exception is raised at the yield"],
     assumptions=["the header stack is the same at resumption as at suspension (nested blocks restore it)"],
     not_decided=["recency clause: bounded stand-in, not proved"])
meta("C19", explanation="single_request postconditions over the assumed connection protocol; _run_request/_request error paths.",
     # 'the parse of its own response' rests on the parser pair being made afresh for every response and keeping nothing:
     # the trusted parse_response model relies on the whole contracts of these functions
     include=["jsonrpclib.jsonrpc.TransportMixIn.getparser", "jsonrpclib.jsonrpc.JSONParser.__init__",
              "jsonrpclib.jsonrpc.JSONParser.feed", "jsonrpclib.jsonrpc.JSONParser.close", "jsonrpclib.jsonrpc.JSONTarget.__init__",
              "jsonrpclib.jsonrpc.JSONTarget.feed", "jsonrpclib.jsonrpc.JSONTarget.close"],
     trusted_base=["http.client.HTTPConnection/HTTPResponse assumed protocol", "xmlrpc.client.Transport.close/make_connection/parse_response"],
     assumptions=["the recovery bound is a fact about http.client and the OS: assumed, not proved"],
     not_decided=["'at most one further call fails' (sequence lemma over the assumed protocol)"])
meta("C20", explanation="handler precedence, verbatim result, configuration forwarded at every depth, configured names.",
     # the configured names and the handler table must survive Config.copy(): the dispatcher dumps results with a copy
     # whenever it adapts its version to a 1.0 request
     include=["jsonrpclib.config.Config.copy", "jsonrpclib.config.Config.__init__"],
     trusted_base=["translator callables are opaque", "exact-type lookup models isinstance against handler types"],
     assumptions=["ignore is None or a list"], not_decided=["ignored names absent from a bean's dump: bounded stand-in on generated shapes"])
