"""Per-property text that goes into the evidence files (assumptions, trusted base, clauses not decided)."""
ENGINE_ASSUMPTIONS = [
    "pyvc is a verification-condition generator written for this task: soundness rests on its operator table "
    "(pyvc/ops.py, pyvc/builtins_model.py; cross-checked against CPython by pyvc.selftest) and on the trusted "
    "contracts of pyvc/trusted.py and contracts/base.py",
    "integers are mathematical; floats are finite reals (NaN/Infinity outside the model)",
    "partial correctness: RecursionError/MemoryError and non-termination are outside the model",
    "mutable containers have value semantics (no two live names for one mutated container in the verified functions)",
]

META = {}


def meta(pid, **kw):
    kw.setdefault("level", "proof")
    kw["assumptions"] = list(kw.get("assumptions", [])) + ENGINE_ASSUMPTIONS
    META[pid] = kw


meta("C06",
     explanation="check_for_errors is executed symbolically for an arbitrary JSON reply value; every clause of "
                 "the statement is a postcondition discharged on every path; the call sites "
                 "(ServerProxy._request/_request_notify, MultiCallIterator) are checked against its contract.",
     trusted_base=["json value datatype: replies are values json.loads can return"],
     assumptions=["reply envelope: 'jsonrpc' member absent or the string '2.0'/'1.0'"],
     not_decided=[])
