"""Per-property text that goes into the evidence files (assumptions, trusted base, clauses not decided)."""
ENGINE_ASSUMPTIONS = [
    "pyvc is a verification-condition generator written for this task: soundness rests on its operator table "
    "(pyvc/ops.py, pyvc/builtins_model.py; cross-checked against CPython by pyvc.selftest) and on the trusted "
    "contracts of pyvc/trusted.py and contracts/base.py",
    "integers are mathematical; floats are finite reals (NaN/Infinity outside the model)",
    "partial correctness: RecursionError/MemoryError and non-termination are outside the model",
    "mutable containers have value semantics (no two live names for one mutated container in the verified functions)",
]

META = {}


def meta(pid, **kw):
    kw.setdefault("level", "proof")
    kw["assumptions"] = list(kw.get("assumptions", [])) + ENGINE_ASSUMPTIONS
    META[pid] = kw


meta("C06",
     explanation="check_for_errors is executed symbolically for an arbitrary JSON reply value; every clause of "
                 "the statement is a postcondition discharged on every path; the call sites "
                 "(ServerProxy._request/_request_notify, MultiCallIterator) are checked against its contract.",
     trusted_base=["json value datatype: replies are values json.loads can return"],
     assumptions=["reply envelope: 'jsonrpc' member absent or the string '2.0'/'1.0'"],
     not_decided=[])

meta("C14",
     explanation="One postcondition per sentence of the statement on Payload.request/notify/response/error, Fault.*, "
                 "dump, dumps, load, loads; exact member sets are equalities between key-set arrays; the generated-id "
                 "rule uses the ghost counter of the trusted uuid4 contract (distinct ids by injectivity of uuid_str).",
     trusted_base=["uuid.uuid4: str() non-empty, distinct per call (ghost uuid_ctr)",
                   "json.dumps: total on JSON-representable values else TypeError; json.loads: value or ValueError",
                   "jc_dump / jc_load: specification functions for the class translator, constrained by the contracts "
                   "of jsonclass.dump / jsonclass.load"],
     assumptions=["version arguments and Config.version range over {1.0, 2.0, 1, 2, '1.0', '2.0'}",
                  "bool and empty-container ids are neither 'supplied' nor 'absent' in the statement: unconstrained"],
     not_decided=["loads(dumps(x)) == N(x) is the composition of the dumps/loads contracts with the trusted JSON "
                  "round-trip axiom; it is stated in C01's lemma, not re-proved here"])
