"""Per-property text that goes into the evidence files (assumptions, trusted base, clauses not decided)."""
ENGINE_ASSUMPTIONS = [
    "pyvc is a verification-condition generator written for this task: soundness rests on its operator table "
    "(pyvc/ops.py, pyvc/builtins_model.py; cross-checked against CPython by pyvc.selftest) and on the trusted "
    "contracts of pyvc/trusted.py and contracts/base.py",
    "integers are mathematical; floats are finite reals (NaN/Infinity outside the model)",
    "partial correctness: RecursionError/MemoryError and non-termination are outside the model",
    "mutable containers have value semantics (no two live names for one mutated container in the verified functions)",
]

META = {}


def meta(pid, **kw):
    kw.setdefault("level", "proof")
    kw["assumptions"] = list(kw.get("assumptions", [])) + ENGINE_ASSUMPTIONS
    META[pid] = kw


meta("C06",
     explanation="check_for_errors is executed symbolically for an arbitrary JSON reply value; every clause of "
                 "the statement is a postcondition discharged on every path; the call sites "
                 "(ServerProxy._request/_request_notify, MultiCallIterator) are checked against its contract.",
     trusted_base=["json value datatype: replies are values json.loads can return"],
     assumptions=["reply envelope: 'jsonrpc' member absent or the string '2.0'/'1.0'"],
     not_decided=[])

meta("C14",
     explanation="One postcondition per sentence of the statement on Payload.request/notify/response/error, Fault.*, "
                 "dump, dumps, load, loads; exact member sets are equalities between key-set arrays; the generated-id "
                 "rule uses the ghost counter of the trusted uuid4 contract (distinct ids by injectivity of uuid_str).",
     trusted_base=["uuid.uuid4: str() non-empty, distinct per call (ghost uuid_ctr)",
                   "json.dumps: total on JSON-representable values else TypeError; json.loads: value or ValueError",
                   "jc_dump / jc_load: specification functions for the class translator, constrained by the contracts "
                   "of jsonclass.dump / jsonclass.load"],
     assumptions=["version arguments and Config.version range over {1.0, 2.0, 1, 2, '1.0', '2.0'}",
                  "bool and empty-container ids are neither 'supplied' nor 'absent' in the statement: unconstrained"],
     not_decided=["loads(dumps(x)) == N(x) is the composition of the dumps/loads contracts with the trusted JSON "
                  "round-trip axiom; it is stated in C01's lemma, not re-proved here"])

_DISP_TB = ['environment callable: appends to ghost call_log, returns any non-Fault value or raises any Exception; bind_err only for a TypeError raised while binding arguments', "json.loads / json.dumps contracts; traceback.format_exception: last line is '<type name>: <str(exc)>\\n'", "resolve_dotted_attribute(obj, name, True): AttributeError iff a segment starts with '_' or is missing", 'ThreadPool.enqueue contract (proved under C09): accepts a callable on an unbounded queue without running it inline']
meta("C02",
     explanation="_marshaled_dispatch is verified for every request text: the reply is '' or the JSON text of a response "
                 "object / non-empty list of response objects, each satisfying wf_response (written from the statement); "
                 "the batch loop carries the quantified invariant 'every collected response is well-formed'.",
     trusted_base=_DISP_TB,
     assumptions=["'never raises' is proved in the form: the dispatcher raises only if the JSON backend rejects the reply it "
                  "built (TypeError from json.dumps); that a reply built from JSON-representable results and ids is "
                  "serialisable is the trusted json.dumps contract, not proved",
                  "notification pools have unbounded queues (enqueue cannot raise queue.Full)"],
     not_decided=["HTTP status plumbing of do_POST"])
meta("C03",
     explanation="id echo is a postcondition of validate_request (Fault carries the id), _marshaled_single_dispatch "
                 "(every answered entry echoes request['id'], also on the exception paths) and of the batch loop "
                 "invariant: len(responses) == answered(batch, i) and the response owed to entry k sits at index "
                 "answered(batch, k) (answered is a recursive specification function).",
     trusted_base=_DISP_TB, assumptions=[], not_decided=[])
meta("C04",
     explanation="a well-formed entry whose id is absent/None/'' yields no response object on every path (return, raise, "
                 "unknown method, custom dispatcher); inline: the environment call log grows by exactly one entry when the "
                 "method is known; pooled: nothing is called inline and exactly one task is handed to enqueue.",
     trusted_base=_DISP_TB,
     assumptions=["pooled notifications: 'executed exactly once' is carried from the accepted task by C09's contract"],
     not_decided=["eventual execution of an accepted task by a pool worker (liveness)"])
meta("C05",
     explanation="the code table is a set of postconditions of _dispatch / _marshaled_single_dispatch / _marshaled_dispatch "
                 "over the environment model (unknown, private, bind error, method exception); 'nothing ran' is ghost "
                 "call_log unchanged.",
     trusted_base=_DISP_TB, assumptions=[], not_decided=["client-side surfacing is C06"])
meta("C13",
     explanation="frame clauses: no function on the serving path writes a field of the server's Config (config_unchanged "
                 "postconditions, loop invariant conjunct); the only Config written is the fresh object returned by "
                 "Config.copy; the reply form is a function of (has jsonrpc, server version).",
     trusted_base=_DISP_TB,
     assumptions=["containers have value semantics in the model: aliasing between the two configurations' dicts is "
                  "checked by a separate structural obligation on Config.copy (see evidence)"],
     not_decided=[])
