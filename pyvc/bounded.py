"""Bounded stand-in (DESIGN 2.12): runtime contracts.  The sidecar requires/ensures are evaluated on the
real function for an enumerated small-scope corpus.  Labelled bounded, never counted as proved; it is what
still finds a failing input when a changed function leaves the accepted subset (UNDECIDED proof)."""
import copy
import traceback
import z3

from . import vals as V
from . import cex
from . import solve
from .contracts import Ctx


def holds(formula, facts=()):
    g = z3.simplify(formula)
    if z3.is_true(g):
        return True
    if z3.is_false(g):
        return False
    s = z3.Solver()
    s.set("timeout", 5000)
    s.add(*solve.base_facts())
    s.add(*facts)
    s.add(*solve.wf_ties(list(facts) + [formula]))
    s.push()
    s.add(z3.Not(formula))
    r1 = s.check()
    s.pop()
    if r1 == z3.unsat:
        return True
    s.add(formula)
    if s.check() == z3.unsat:
        return False
    return None


def requires_hold(env, con, pyargs):
    objtable = {}
    args = {n: V.py_to_val(v, objtable) for n, v in pyargs.items()}
    arr = lambda f: z3.Array("CH!" + f, z3.IntSort(), V.Val)
    g = lambda n: z3.Const("CG!" + n, env.trusted.ghost_sort(n))
    ctx = Ctx(None, args, arr, arr, g, g, V.VNone, z3.BoolVal(False), V.VNone, lambda n: args[n], None)
    for label, fn_req in con.requires:
        if holds(fn_req(ctx)) is not True:
            return False
    return True


def run_contract(env, con, pid=None, limit=None):
    """returns dict(evaluations, skipped, failures=[{clause,input,observed}])"""
    corpus = getattr(con, "corpus", None)
    if corpus is None:
        return None
    invoke = getattr(con, "invoke", None)
    n = skipped = 0
    failures = []
    labels = [lab for lab, _, props in con.ensures if pid is None or pid in (props or con.props)]
    import os, random, time
    t0 = time.time()
    tier = os.environ.get("VERIF_TIER_ACTIVE", "quick")
    budget = float(os.environ.get("VERIF_BOUNDED_SECS", "25" if tier == "quick" else "180"))
    items = list(corpus())
    total = len(items)
    rng = random.Random(int(os.environ.get("VERIF_SEED", "0") or 0))
    cap = int(os.environ.get("VERIF_BOUNDED_CAP", "400" if tier == "quick" else "100000"))
    if total > cap:
        head = items[: cap // 2]
        rest = items[cap // 2:]
        rng.shuffle(rest)
        items = head + rest[: cap - len(head)]
    for pyargs in items:
        if limit is not None and n >= limit:
            break
        if time.time() - t0 > budget:
            break
        try:
            if not requires_hold(env, con, pyargs):
                skipped += 1
                continue
            if invoke is not None:
                outcome = invoke(env.real_fn, copy.deepcopy(pyargs))
            else:
                outcome = cex.concrete_outcome(env.real_fn, pyargs)
            n += 1
            for lab in labels:
                verdict = cex.eval_clause(env, None, con, lab, pyargs, outcome)
                if verdict is False:
                    failures.append({"clause": lab, "input": cex.jsonable(pyargs),
                                     "observed": {"kind": outcome[0], "value": repr(outcome[1])[:300]}})
        except Exception as e:
            failures.append({"clause": "<harness error>", "input": cex.jsonable(pyargs),
                             "observed": {"kind": "harness", "value": "%s: %s" % (type(e).__name__, e)},
                             "trace": traceback.format_exc()[-600:], "harness_error": True})
    return {"function": con.key, "evaluations": n, "corpus_size": total, "skipped_outside_requires": skipped, "failures": failures,
            "bound": getattr(con, "corpus_bound", "enumerated small-scope corpus defined next to the contract")}
