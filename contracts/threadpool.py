"""threadpool.py: EventData, FutureResult (C16, C09), ThreadPool (C09, C10, C11)."""
import z3
from pyvc import vals as V
from pyvc.vals import Val
from .base import *
import jsonrpclib.threadpool as TP

ED = "jsonrpclib.threadpool.EventData"
FR_ = "jsonrpclib.threadpool.FutureResult"
POOL = "jsonrpclib.threadpool.ThreadPool"
_E = "_EventData__"
FIELDS.declare(ED, _E + "event", type=EVENT)
FIELDS.declare(ED, _E + "data")
FIELDS.declare(ED, _E + "exception")
FIELDS.declare(FR_, "_done_event", type=ED)
FIELDS.declare(FR_, "_logger", type="logging.Logger")
FIELDS.declare(FR_, "_FutureResult__callback")
FIELDS.declare(FR_, "_FutureResult__extra")


def ed_inv(c, e, heap="old"):
    rd = c.old if heap == "old" else c.new
    ev = rd(e, _E + "event")
    return z3.And(V.is_obj(ev), Val.ref(ev) >= 0, Val.ref(ev) != Val.ref(e),
                  C.subclass(C.cls_of(Val.ref(ev)), __import__("threading").Event), V.is_bool(rd(ev, "_flag")),
                  # quiescent state: an outcome is stored only together with the flag
                  z3.Or(rd(ev, "_flag") == V.B(True), z3.And(V.is_none(rd(e, _E + "exception")), V.is_none(rd(e, _E + "data")))),
                  z3.Or(V.is_none(rd(e, _E + "exception")),
                        z3.And(V.is_obj(rd(e, _E + "exception")),
                               C.subclass(C.cls_of(Val.ref(rd(e, _E + "exception"))), BaseException))))


def ed_flag(c, e, heap="new"):
    rd = c.old if heap == "old" else c.new
    return rd(rd(e, _E + "event"), "_flag") == V.B(True)


Contract(ED + ".__init__",
         ensures=[("fresh_unset_event", lambda c: z3.And(
             c.returns, c.fresh_obj(c.new(c.a.self, _E + "event")), c.new(c.new(c.a.self, _E + "event"), "_flag") == V.B(False),
             V.is_none(c.new(c.a.self, _E + "data")), V.is_none(c.new(c.a.self, _E + "exception"))), ("C16",))],
         modifies=[Field(lambda c: c.a.self, _E + f) for f in ("event", "data", "exception")] + [Fresh("_flag")],
         props=("C16",))

for _prop, _field in (("data", "data"), ("exception", "exception")):
    Contract(ED + "." + _prop,
             ensures=[("reads_the_stored_value", lambda c, _f=_field: z3.And(c.returns, c.ret == c.old(c.a.self, _E + _f)), ("C16", "C09"))],
             modifies=[], props=("C16",))

Contract(ED + ".is_set", requires=[("event", lambda c: ed_inv(c, c.a.self))],
         ensures=[("reads_the_flag", lambda c: z3.And(c.returns, c.ret == V.VBool(ed_flag(c, c.a.self, "old"))), ("C16",))],
         modifies=[], props=("C16",))

Contract(ED + ".set", requires=[("event", lambda c: ed_inv(c, c.a.self))],
         ensures=[("outcome_stored_then_flag_set", lambda c: z3.And(
             c.returns, c.new(c.a.self, _E + "data") == c.a.data, V.is_none(c.new(c.a.self, _E + "exception")),
             ed_flag(c, c.a.self)), ("C16", "C09"))],
         modifies=[Field(lambda c: c.a.self, _E + "data"), Field(lambda c: c.a.self, _E + "exception"),
                   Field(lambda c: c.old(c.a.self, _E + "event"), "_flag")],
         props=("C16",))

Contract(ED + ".raise_exception", requires=[("event", lambda c: ed_inv(c, c.a.self))],
         ensures=[("exception_stored_then_flag_set", lambda c: z3.And(
             c.returns, V.is_none(c.new(c.a.self, _E + "data")), c.new(c.a.self, _E + "exception") == c.a.exception,
             ed_flag(c, c.a.self)), ("C16", "C09"))],
         modifies=[Field(lambda c: c.a.self, _E + "data"), Field(lambda c: c.a.self, _E + "exception"),
                   Field(lambda c: c.old(c.a.self, _E + "event"), "_flag")],
         props=("C16",))

Contract(ED + ".clear", requires=[("event", lambda c: ed_inv(c, c.a.self))],
         ensures=[("reset", lambda c: z3.And(c.returns, c.new(c.old(c.a.self, _E + "event"), "_flag") == V.B(False), V.is_none(c.new(c.a.self, _E + "data")),
                                             V.is_none(c.new(c.a.self, _E + "exception"))), ("C16",))],
         modifies=[Field(lambda c: c.a.self, _E + "data"), Field(lambda c: c.a.self, _E + "exception"),
                   Field(lambda c: c.old(c.a.self, _E + "event"), "_flag")],
         props=("C16",))

Contract(ED + ".wait", requires=[("event", lambda c: ed_inv(c, c.a.self))],
         ensures=[
             ("false_only_while_not_set", lambda c: implies(z3.And(c.returns, z3.Not(V.truthy(c.ret))),
                                                            z3.Not(ed_flag(c, c.a.self, "old"))), ("C16",)),
             ("true_means_set", lambda c: implies(z3.And(c.returns, V.truthy(c.ret)), ed_flag(c, c.a.self)), ("C16",)),
             ("flag_stays_boolean", lambda c: V.is_bool(c.new(c.old(c.a.self, _E + "event"), "_flag")), ("C16",)),
             ("set_event_answers_at_once", lambda c: implies(
                 ed_flag(c, c.a.self, "old"),
                 z3.If(V.is_none(c.old(c.a.self, _E + "exception")), z3.And(c.returns, V.truthy(c.ret)),
                       z3.And(c.raised, c.exc == c.old(c.a.self, _E + "exception")))), ("C16", "C09")),
             ("raises_only_the_stored_exception", lambda c: implies(c.raised, c.exc == c.old(c.a.self, _E + "exception")),
              ("C16",)),
             ("outcome_kept", lambda c: z3.And(c.new(c.a.self, _E + "data") == c.old(c.a.self, _E + "data"),
                                               c.new(c.a.self, _E + "exception") == c.old(c.a.self, _E + "exception")), ("C16",)),
         ],
         modifies=[Field(lambda c: c.old(c.a.self, _E + "event"), "_flag")],
         props=("C16",))


# --- FutureResult (sequential contracts: C16, C09) ------------------------------------------------------------------------------
_CB, _EX = "_FutureResult__callback", "_FutureResult__extra"
FJ = z3.Int("FREE!j")


def _appended(lst, item):
    return V.VList(Val.llen(lst) + 1, z3.Store(Val.lat(lst), Val.llen(lst), item))

ENVG = [Ghost(g) for g in ("call_log", "env_calls", "env_outcomes", "env_kind", "env_val", "bind_err")]


def fut_inv(c, f, heap="old"):
    rd = c.old if heap == "old" else c.new
    de = rd(f, "_done_event")
    lg = rd(f, "_logger")
    return z3.And(V.is_obj(de), Val.ref(de) >= 0, Val.ref(de) != Val.ref(f), C.subclass(C.cls_of(Val.ref(de)), TP.EventData),
                  ed_inv(c, de, heap), Val.ref(rd(de, _E + "event")) != Val.ref(f),
                  V.is_obj(lg), Val.ref(lg) >= 0, V.is_list(c.gold("call_log")), Val.llen(c.gold("call_log")) >= 0,
                  V.is_list(c.gold("env_outcomes")), Val.llen(c.gold("env_outcomes")) == Val.llen(c.gold("call_log")))


def _done(c, f, heap="new"):
    rd = c.old if heap == "old" else c.new
    return ed_flag(c, rd(f, "_done_event"), heap)


def _dat(c, f, heap="new"):
    rd = c.old if heap == "old" else c.new
    return rd(rd(f, "_done_event"), _E + "data")


def _exn(c, f, heap="new"):
    rd = c.old if heap == "old" else c.new
    return rd(rd(f, "_done_event"), _E + "exception")


def _log_at(c, k):
    return z3.Select(Val.lat(c.gnew("call_log")), Val.llen(c.gold("call_log")) + k)


def _outcome_at(c, k):
    return z3.Select(Val.lat(c.gnew("env_outcomes")), Val.llen(c.gold("env_outcomes")) + k)


def _ncalls(c):
    return Val.llen(c.gnew("call_log")) - Val.llen(c.gold("call_log"))


Contract(FR_ + ".__init__", kinds={"logger": "val"},
         ensures=[("not_done_no_callback", lambda c: z3.And(
             c.returns, z3.Not(_done(c, c.a.self)), V.is_none(c.new(c.a.self, _CB)), V.is_none(c.new(c.a.self, _EX)),
             c.fresh_obj(c.new(c.a.self, "_done_event"))), ("C16", "C09"))],
         modifies=[Field(lambda c: c.a.self, f) for f in ("_logger", "_done_event", _CB, _EX)] +
                  [Fresh(_E + f) for f in ("event", "data", "exception")] + [Fresh("_flag")],
         props=("C16",))

Contract(FR_ + ".done", requires=[("future", lambda c: fut_inv(c, c.a.self))],
         ensures=[("reports_completion", lambda c: z3.And(c.returns, c.ret == V.VBool(_done(c, c.a.self, "old"))), ("C16", "C09"))],
         modifies=[], props=("C16",))

Contract(FR_ + ".result", requires=[("future", lambda c: fut_inv(c, c.a.self))],
         ensures=[
             ("timeout_is_oserror_only_while_not_done", lambda c: implies(
                 z3.Not(_done(c, c.a.self, "old")),
                 z3.Or(c.raises(OSError), _done(c, c.a.self))), ("C16",)),
             ("done_future_yields_its_outcome_at_once", lambda c: implies(
                 _done(c, c.a.self, "old"),
                 z3.If(V.is_none(_exn(c, c.a.self, "old")), z3.And(c.returns, c.ret == _dat(c, c.a.self, "old")),
                       z3.And(c.raised, c.exc == _exn(c, c.a.self, "old")))), ("C16", "C09")),
             ("outcome_kept", lambda c: z3.And(_dat(c, c.a.self) == _dat(c, c.a.self, "old"),
                                               _exn(c, c.a.self) == _exn(c, c.a.self, "old")), ("C16",)),
         ],
         modifies=[Field(lambda c: c.old(c.old(c.a.self, "_done_event"), _E + "event"), "_flag"), Fresh("args")],
         props=("C16",))

Contract(FR_ + ".__notify", requires=[("future", lambda c: fut_inv(c, c.a.self))],
         ensures=[
             ("no_callback_no_call", lambda c: implies(V.is_none(c.old(c.a.self, _CB)), z3.And(
                 c.returns, c.gnew("call_log") == c.gold("call_log"), c.gnew("env_outcomes") == c.gold("env_outcomes"))), ("C16",)),
             ("callback_called_once_with_outcome", lambda c: implies(z3.Not(V.is_none(c.old(c.a.self, _CB))), z3.And(
                 c.gnew("call_log") == _appended(c.gold("call_log"), tup(
                     c.old(c.a.self, _CB), tup(_dat(c, c.a.self, "old"), _exn(c, c.a.self, "old"), c.old(c.a.self, _EX)),
                     V.empty_dict())),
                 Val.llen(c.gnew("env_outcomes")) == Val.llen(c.gold("env_outcomes")) + 1,
                 z3.Implies(z3.And(FJ >= 0, FJ < Val.llen(c.gold("env_outcomes"))),
                            z3.Select(Val.lat(c.gnew("env_outcomes")), FJ) == z3.Select(Val.lat(c.gold("env_outcomes")), FJ)))),
              ("C16",)),
             ("callback_errors_are_contained", lambda c: z3.And(
                 c.returns, _dat(c, c.a.self) == _dat(c, c.a.self, "old"), _exn(c, c.a.self) == _exn(c, c.a.self, "old"),
                 _done(c, c.a.self) == _done(c, c.a.self, "old")), ("C16",)),
             ("logs_stay_aligned", lambda c: Val.llen(c.gnew("env_outcomes")) == Val.llen(c.gnew("call_log")), ("C16",)),
         ],
         modifies=ENVG, props=("C16",))

Contract(FR_ + ".set_callback", requires=[("future", lambda c: fut_inv(c, c.a.self))],
         ensures=[
             ("registration_stored", lambda c: z3.And(c.new(c.a.self, _CB) == c.a.method, c.new(c.a.self, _EX) == c.a.extra), ("C16",)),
             ("finished_task_notifies_immediately", lambda c: implies(
                 z3.And(_done(c, c.a.self, "old"), z3.Not(V.is_none(c.a.method))),
                 z3.And(c.returns, _ncalls(c) == 1,
                        _log_at(c, 0) == tup(c.a.method, tup(_dat(c, c.a.self, "old"), _exn(c, c.a.self, "old"), c.a.extra),
                                             V.empty_dict()))), ("C16",)),
             ("pending_task_defers_notification", lambda c: implies(z3.Not(_done(c, c.a.self, "old")),
                                                                    z3.And(c.returns, _ncalls(c) == 0)), ("C16",)),
         ],
         modifies=[Field(lambda c: c.a.self, _CB), Field(lambda c: c.a.self, _EX)] + ENVG, props=("C16",))


def _task_call(c):
    a = z3.If(V.is_none(c.a.args), V.empty_list(), c.a.args)
    k = z3.If(V.is_none(c.a.kwargs), V.empty_dict(), c.a.kwargs)
    return tup(c.a.method, a, k)


Contract(FR_ + ".execute",
         requires=[("future", lambda c: fut_inv(c, c.a.self)),
                   ("task", lambda c: z3.And(z3.Or(V.is_none(c.a.args), V.is_list(c.a.args), V.is_tuple(c.a.args)),
                                             z3.Or(V.is_none(c.a.kwargs), V.is_dict(c.a.kwargs))))],
         ensures=[
             ("task_runs_exactly_once_first", lambda c: z3.And(_ncalls(c) >= 1, _log_at(c, 0) == _task_call(c)), ("C09", "C16")),
             ("result_is_the_very_object", lambda c: implies(c.returns, z3.And(
                 _done(c, c.a.self), _outcome_at(c, 0) == tup(V.I(0), _dat(c, c.a.self)), V.is_none(_exn(c, c.a.self)))),
              ("C09", "C16")),
             ("exception_is_the_very_object_and_propagates", lambda c: implies(c.raised, z3.And(
                 _done(c, c.a.self), _outcome_at(c, 0) == tup(V.I(1), c.exc), _exn(c, c.a.self) == c.exc,
                 V.is_none(_dat(c, c.a.self)))), ("C09", "C16")),
             ("callback_notified_once_after_completion", lambda c: z3.If(
                 V.is_none(c.old(c.a.self, _CB)), _ncalls(c) == 1,
                 z3.And(_ncalls(c) == 2,
                        _log_at(c, 1) == tup(c.old(c.a.self, _CB), tup(_dat(c, c.a.self), _exn(c, c.a.self), c.old(c.a.self, _EX)),
                                             V.empty_dict()))), ("C16",)),
         ],
         modifies=[Field(lambda c: c.old(c.a.self, "_done_event"), _E + "data"),
                   Field(lambda c: c.old(c.a.self, "_done_event"), _E + "exception"),
                   Field(lambda c: c.old(c.old(c.a.self, "_done_event"), _E + "event"), "_flag")] + ENVG,
         props=("C09", "C16"))
