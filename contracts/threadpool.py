"""threadpool.py: EventData, FutureResult (C16, C09), ThreadPool (C09, C10, C11)."""
import z3
from pyvc import vals as V
from pyvc.vals import Val
from .base import *
import jsonrpclib.threadpool as TP

ED = "jsonrpclib.threadpool.EventData"
FR_ = "jsonrpclib.threadpool.FutureResult"
POOL = "jsonrpclib.threadpool.ThreadPool"
_E = "_EventData__"
FIELDS.declare(ED, _E + "event", type=EVENT)
FIELDS.declare(ED, _E + "data")
FIELDS.declare(ED, _E + "exception")
FIELDS.declare(FR_, "_done_event", type=ED)
FIELDS.declare(FR_, "_logger", type="logging.Logger")
FIELDS.declare(FR_, "_FutureResult__callback")
FIELDS.declare(FR_, "_FutureResult__extra")


def ed_inv(c, e, heap="old"):
    rd = c.old if heap == "old" else c.new
    ev = rd(e, _E + "event")
    return z3.And(V.is_obj(ev), Val.ref(ev) >= 0, Val.ref(ev) != Val.ref(e),
                  C.subclass(C.cls_of(Val.ref(ev)), __import__("threading").Event), V.is_bool(rd(ev, "_flag")),
                  # quiescent state: an outcome is stored only together with the flag
                  z3.Or(rd(ev, "_flag") == V.B(True), z3.And(V.is_none(rd(e, _E + "exception")), V.is_none(rd(e, _E + "data")))),
                  z3.Or(V.is_none(rd(e, _E + "exception")),
                        z3.And(V.is_obj(rd(e, _E + "exception")),
                               C.subclass(C.cls_of(Val.ref(rd(e, _E + "exception"))), BaseException))))


def ed_flag(c, e, heap="new"):
    rd = c.old if heap == "old" else c.new
    return rd(rd(e, _E + "event"), "_flag") == V.B(True)


Contract(ED + ".__init__",
         ensures=[("fresh_unset_event", lambda c: z3.And(
             c.returns, c.fresh_obj(c.new(c.a.self, _E + "event")), c.new(c.new(c.a.self, _E + "event"), "_flag") == V.B(False),
             V.is_none(c.new(c.a.self, _E + "data")), V.is_none(c.new(c.a.self, _E + "exception"))), ("C16",))],
         modifies=[Field(lambda c: c.a.self, _E + f) for f in ("event", "data", "exception")] + [Fresh("_flag")],
         props=("C16",))

for _prop, _field in (("data", "data"), ("exception", "exception")):
    Contract(ED + "." + _prop,
             ensures=[("reads_the_stored_value", lambda c, _f=_field: z3.And(c.returns, c.ret == c.old(c.a.self, _E + _f)), ("C16", "C09"))],
             modifies=[], props=("C16",))

Contract(ED + ".is_set", requires=[("event", lambda c: ed_inv(c, c.a.self))],
         ensures=[("reads_the_flag", lambda c: z3.And(c.returns, c.ret == V.VBool(ed_flag(c, c.a.self, "old"))), ("C16",))],
         modifies=[], props=("C16",))

Contract(ED + ".set", requires=[("event", lambda c: ed_inv(c, c.a.self))],
         ensures=[("outcome_stored_then_flag_set", lambda c: z3.And(
             c.returns, c.new(c.a.self, _E + "data") == c.a.data, V.is_none(c.new(c.a.self, _E + "exception")),
             ed_flag(c, c.a.self)), ("C16", "C09"))],
         modifies=[Field(lambda c: c.a.self, _E + "data"), Field(lambda c: c.a.self, _E + "exception"),
                   Field(lambda c: c.old(c.a.self, _E + "event"), "_flag")],
         props=("C16",))

Contract(ED + ".raise_exception", requires=[("event", lambda c: ed_inv(c, c.a.self))],
         ensures=[("exception_stored_then_flag_set", lambda c: z3.And(
             c.returns, V.is_none(c.new(c.a.self, _E + "data")), c.new(c.a.self, _E + "exception") == c.a.exception,
             ed_flag(c, c.a.self)), ("C16", "C09"))],
         modifies=[Field(lambda c: c.a.self, _E + "data"), Field(lambda c: c.a.self, _E + "exception"),
                   Field(lambda c: c.old(c.a.self, _E + "event"), "_flag")],
         props=("C16",))

Contract(ED + ".clear", requires=[("event", lambda c: ed_inv(c, c.a.self))],
         ensures=[("reset", lambda c: z3.And(c.returns, c.new(c.old(c.a.self, _E + "event"), "_flag") == V.B(False), V.is_none(c.new(c.a.self, _E + "data")),
                                             V.is_none(c.new(c.a.self, _E + "exception"))), ("C16",))],
         modifies=[Field(lambda c: c.a.self, _E + "data"), Field(lambda c: c.a.self, _E + "exception"),
                   Field(lambda c: c.old(c.a.self, _E + "event"), "_flag")],
         props=("C16",))

Contract(ED + ".wait", requires=[("event", lambda c: ed_inv(c, c.a.self))],
         ensures=[
             ("false_only_while_not_set", lambda c: implies(z3.And(c.returns, z3.Not(V.truthy(c.ret))),
                                                            z3.Not(ed_flag(c, c.a.self, "old"))), ("C16",)),
             ("true_means_set", lambda c: implies(z3.And(c.returns, V.truthy(c.ret)), ed_flag(c, c.a.self)), ("C16",)),
             ("flag_stays_boolean", lambda c: V.is_bool(c.new(c.old(c.a.self, _E + "event"), "_flag")), ("C16",)),
             ("set_event_answers_at_once", lambda c: implies(
                 ed_flag(c, c.a.self, "old"),
                 z3.If(V.is_none(c.old(c.a.self, _E + "exception")), z3.And(c.returns, V.truthy(c.ret)),
                       z3.And(c.raised, c.exc == c.old(c.a.self, _E + "exception")))), ("C16", "C09")),
             ("raises_only_the_stored_exception", lambda c: implies(c.raised, c.exc == c.old(c.a.self, _E + "exception")),
              ("C16",)),
             ("outcome_kept", lambda c: z3.And(c.new(c.a.self, _E + "data") == c.old(c.a.self, _E + "data"),
                                               c.new(c.a.self, _E + "exception") == c.old(c.a.self, _E + "exception")), ("C16",)),
         ],
         modifies=[Field(lambda c: c.old(c.a.self, _E + "event"), "_flag")],
         props=("C16",))


# --- FutureResult (sequential contracts: C16, C09) ------------------------------------------------------------------------------
_CB, _EX = "_FutureResult__callback", "_FutureResult__extra"
FJ = z3.Int("FREE!j")


def _appended(lst, item):
    return V.VList(Val.llen(lst) + 1, z3.Store(Val.lat(lst), Val.llen(lst), item))

ENVG = [Ghost(g) for g in ("call_log", "env_calls", "env_outcomes", "env_kind", "env_val", "bind_err")]


def fut_inv(c, f, heap="old"):
    rd = c.old if heap == "old" else c.new
    de = rd(f, "_done_event")
    lg = rd(f, "_logger")
    return z3.And(V.is_obj(de), Val.ref(de) >= 0, Val.ref(de) != Val.ref(f), C.subclass(C.cls_of(Val.ref(de)), TP.EventData),
                  ed_inv(c, de, heap), Val.ref(rd(de, _E + "event")) != Val.ref(f),
                  V.is_obj(lg), Val.ref(lg) >= 0, V.is_list(c.gold("call_log")), Val.llen(c.gold("call_log")) >= 0,
                  V.is_list(c.gold("env_outcomes")), Val.llen(c.gold("env_outcomes")) == Val.llen(c.gold("call_log")))


def _done(c, f, heap="new"):
    rd = c.old if heap == "old" else c.new
    return ed_flag(c, rd(f, "_done_event"), heap)


def _dat(c, f, heap="new"):
    rd = c.old if heap == "old" else c.new
    return rd(rd(f, "_done_event"), _E + "data")


def _exn(c, f, heap="new"):
    rd = c.old if heap == "old" else c.new
    return rd(rd(f, "_done_event"), _E + "exception")


def _log_at(c, k):
    return z3.Select(Val.lat(c.gnew("call_log")), Val.llen(c.gold("call_log")) + k)


def _outcome_at(c, k):
    return z3.Select(Val.lat(c.gnew("env_outcomes")), Val.llen(c.gold("env_outcomes")) + k)


def _ncalls(c):
    return Val.llen(c.gnew("call_log")) - Val.llen(c.gold("call_log"))


_FLOCK = "_FutureResult__lock"
from pyvc.monitor import SlotMonitor
REGISTRY_TP0 = __import__("pyvc.contracts", fromlist=["REGISTRY"]).REGISTRY


def fut_lock_inv(c, f, heap="old"):
    """the future owns a lock object, distinct from its other parts; the slot log is a list"""
    rd = c.old if heap == "old" else c.new
    gh = c.gold if heap == "old" else c.gnew
    lk = rd(f, _FLOCK)
    return z3.And(V.is_obj(lk), Val.ref(lk) >= 0, Val.ref(lk) != Val.ref(f), Val.ref(lk) != Val.ref(rd(f, "_done_event")),
                  V.is_list(gh("slot_log")), Val.llen(gh("slot_log")) >= 0)


def _slot_n(c):
    return Val.llen(c.gnew("slot_log")) - Val.llen(c.gold("slot_log"))


def _slot_at(c, k, part):
    """part 0/1: callback / extra seen when the k-th critical section of this call began; 2/3: what it left"""
    return z3.Select(Val.tat(z3.Select(Val.lat(c.gnew("slot_log")), Val.llen(c.gold("slot_log")) + k)), part)


def _slot_prefix_kept(c):
    return z3.Implies(z3.And(FJ >= 0, FJ < Val.llen(c.gold("slot_log"))),
                      z3.Select(Val.lat(c.gnew("slot_log")), FJ) == z3.Select(Val.lat(c.gold("slot_log")), FJ))


Contract(FR_ + ".__init__", kinds={"logger": "val"},
         ensures=[("not_done_no_callback", lambda c: z3.And(
             c.returns, z3.Not(_done(c, c.a.self)), V.is_none(c.new(c.a.self, _CB)), V.is_none(c.new(c.a.self, _EX)),
             c.fresh_obj(c.new(c.a.self, "_done_event")), c.fresh_obj(c.new(c.a.self, _FLOCK))), ("C16", "C09"))],
         modifies=[Field(lambda c: c.a.self, f) for f in ("_logger", "_done_event", _CB, _EX, _FLOCK)] +
                  [Fresh(_E + f) for f in ("event", "data", "exception")] + [Fresh("_flag")],
         props=("C16",))
REGISTRY_TP0[FR_ + ".__init__"].monitor = SlotMonitor(constructor=True)

Contract(FR_ + ".done", requires=[("future", lambda c: fut_inv(c, c.a.self))],
         ensures=[("reports_completion", lambda c: z3.And(c.returns, c.ret == V.VBool(_done(c, c.a.self, "old"))), ("C16", "C09"))],
         modifies=[], props=("C16",))

Contract(FR_ + ".result", requires=[("future", lambda c: fut_inv(c, c.a.self))],
         ensures=[
             ("timeout_is_oserror_only_while_not_done", lambda c: implies(
                 z3.Not(_done(c, c.a.self, "old")),
                 z3.Or(c.raises(OSError), _done(c, c.a.self))), ("C16",)),
             ("done_future_yields_its_outcome_at_once", lambda c: implies(
                 _done(c, c.a.self, "old"),
                 z3.If(V.is_none(_exn(c, c.a.self, "old")), z3.And(c.returns, c.ret == _dat(c, c.a.self, "old")),
                       z3.And(c.raised, c.exc == _exn(c, c.a.self, "old")))), ("C16", "C09")),
             ("outcome_kept", lambda c: z3.And(_dat(c, c.a.self) == _dat(c, c.a.self, "old"),
                                               _exn(c, c.a.self) == _exn(c, c.a.self, "old")), ("C16",)),
         ],
         modifies=[Field(lambda c: c.old(c.old(c.a.self, "_done_event"), _E + "event"), "_flag"), Fresh("args")],
         props=("C16",))

_SLOTW = [Field(lambda c: c.a.self, _CB), Field(lambda c: c.a.self, _EX), Ghost("slot_log")]

Contract(FR_ + ".__notify", requires=[("future", lambda c: fut_inv(c, c.a.self)), ("lock", lambda c: fut_lock_inv(c, c.a.self))],
         ensures=[
             # the callback is consumed: read and cleared in ONE critical section, so no other thread can consume it too
             ("consumes_the_registration_atomically", lambda c: z3.And(
                 _slot_n(c) == 1, V.is_none(_slot_at(c, 0, 2)), V.is_none(_slot_at(c, 0, 3)), _slot_prefix_kept(c)), ("C16",)),
             ("empty_slot_no_call", lambda c: implies(V.is_none(_slot_at(c, 0, 0)), z3.And(
                 c.returns, c.gnew("call_log") == c.gold("call_log"), c.gnew("env_outcomes") == c.gold("env_outcomes"))), ("C16",)),
             ("consumed_callback_called_once_with_outcome", lambda c: implies(z3.Not(V.is_none(_slot_at(c, 0, 0))), z3.And(
                 c.gnew("call_log") == _appended(c.gold("call_log"), tup(
                     _slot_at(c, 0, 0), tup(_dat(c, c.a.self, "old"), _exn(c, c.a.self, "old"), _slot_at(c, 0, 1)),
                     V.empty_dict())),
                 Val.llen(c.gnew("env_outcomes")) == Val.llen(c.gold("env_outcomes")) + 1,
                 z3.Implies(z3.And(FJ >= 0, FJ < Val.llen(c.gold("env_outcomes"))),
                            z3.Select(Val.lat(c.gnew("env_outcomes")), FJ) == z3.Select(Val.lat(c.gold("env_outcomes")), FJ)))),
              ("C16",)),
             ("callback_errors_are_contained", lambda c: z3.And(
                 c.returns, _dat(c, c.a.self) == _dat(c, c.a.self, "old"), _exn(c, c.a.self) == _exn(c, c.a.self, "old"),
                 _done(c, c.a.self) == _done(c, c.a.self, "old")), ("C16",)),
             ("logs_stay_aligned", lambda c: Val.llen(c.gnew("env_outcomes")) == Val.llen(c.gnew("call_log")), ("C16",)),
         ],
         modifies=ENVG + _SLOTW, props=("C16",))
REGISTRY_TP0[FR_ + ".__notify"].monitor = SlotMonitor()

_IS_SET = ED + ".is_set"
_NOTIFY = FR_ + ".__notify"

Contract(FR_ + ".set_callback", requires=[("future", lambda c: fut_inv(c, c.a.self)), ("lock", lambda c: fut_lock_inv(c, c.a.self))],
         ensures=[
             ("registration_stored_atomically", lambda c: z3.And(
                 _slot_n(c) >= 1, _slot_at(c, 0, 2) == c.a.method, _slot_at(c, 0, 3) == c.a.extra, _slot_prefix_kept(c)), ("C16",)),
             ("finished_task_is_notified_at_once", lambda c: implies(
                 _done(c, c.a.self, "old"), z3.And(c.returns, _slot_n(c) == 2, V.is_none(_slot_at(c, 1, 2)),
                                                   implies(V.is_none(_slot_at(c, 1, 0)), _ncalls(c) == 0),
                                                   implies(z3.Not(V.is_none(_slot_at(c, 1, 0))), z3.And(
                                                       _ncalls(c) == 1,
                                                       _log_at(c, 0) == tup(_slot_at(c, 1, 0),
                                                                            tup(_dat(c, c.a.self, "old"), _exn(c, c.a.self, "old"),
                                                                                _slot_at(c, 1, 1)), V.empty_dict()))))), ("C16",)),
             ("pending_task_defers_notification", lambda c: implies(z3.Not(_done(c, c.a.self, "old")),
                                                                    z3.And(c.returns, _ncalls(c) == 0, _slot_n(c) == 1)), ("C16",)),
         ],
         # ordering: completion is looked at only AFTER the registration is in place (otherwise a completion between the
         # look and the store would never notify this registration)
         asserts=[("completion_checked_after_the_registration_is_stored", _IS_SET,
                   lambda pc, L: Val.llen(L.ghost("slot_log")) == Val.llen(z3.Const("G0!slot_log", Val)) + 1, ("C16",))],
         modifies=_SLOTW + ENVG, props=("C16",))
REGISTRY_TP0[FR_ + ".set_callback"].monitor = SlotMonitor()


def _task_call(c):
    a = z3.If(V.is_none(c.a.args), V.empty_list(), c.a.args)
    k = z3.If(V.is_none(c.a.kwargs), V.empty_dict(), c.a.kwargs)
    return tup(c.a.method, a, k)


Contract(FR_ + ".execute",
         requires=[("future", lambda c: fut_inv(c, c.a.self)), ("lock", lambda c: fut_lock_inv(c, c.a.self)),
                   ("task", lambda c: z3.And(z3.Or(V.is_none(c.a.args), V.is_list(c.a.args), V.is_tuple(c.a.args)),
                                             z3.Or(V.is_none(c.a.kwargs), V.is_dict(c.a.kwargs))))],
         ensures=[
             ("task_runs_exactly_once_first", lambda c: z3.And(_ncalls(c) >= 1, _log_at(c, 0) == _task_call(c)), ("C09", "C16")),
             ("result_is_the_very_object", lambda c: implies(c.returns, z3.And(
                 _done(c, c.a.self), _outcome_at(c, 0) == tup(V.I(0), _dat(c, c.a.self)), V.is_none(_exn(c, c.a.self)))),
              ("C09", "C16")),
             ("exception_is_the_very_object_and_propagates", lambda c: implies(c.raised, z3.And(
                 _done(c, c.a.self), _outcome_at(c, 0) == tup(V.I(1), c.exc), _exn(c, c.a.self) == c.exc,
                 V.is_none(_dat(c, c.a.self)))), ("C09", "C16")),
             ("registered_callback_consumed_once_after_completion", lambda c: z3.And(
                 _slot_n(c) == 1, V.is_none(_slot_at(c, 0, 2)), _slot_prefix_kept(c),
                 z3.If(V.is_none(_slot_at(c, 0, 0)), _ncalls(c) == 1,
                       z3.And(_ncalls(c) == 2,
                              _log_at(c, 1) == tup(_slot_at(c, 0, 0), tup(_dat(c, c.a.self), _exn(c, c.a.self), _slot_at(c, 0, 1)),
                                                   V.empty_dict())))), ("C16",)),
         ],
         # ordering: the outcome is published (event set) BEFORE the registration is consumed, so a registration stored
         # later sees the completion itself
         asserts=[("completion_published_before_the_callback_is_consumed", _NOTIFY,
                   lambda pc, L: V.truthy(L.field(L.field(L.field0(L.v0("self"), "_done_event"), _E + "event"), "_flag")), ("C16",))],
         modifies=[Field(lambda c: c.old(c.a.self, "_done_event"), _E + "data"),
                   Field(lambda c: c.old(c.a.self, "_done_event"), _E + "exception"),
                   Field(lambda c: c.old(c.old(c.a.self, "_done_event"), _E + "event"), "_flag")] + ENVG + _SLOTW,
         props=("C09", "C16"))
REGISTRY_TP0[FR_ + ".execute"].monitor = SlotMonitor()


# --- ThreadPool ------------------------------------------------------------------------------------------------------------------
from pyvc.monitor import PoolMonitor, PFX, NB, NBA, THREADS, LOCK
PEND = PFX + "nb_pending_task"
FIELDS.declare(POOL, "_queue", type=QUEUE)
FIELDS.declare(POOL, "_done_event", type=EVENT)
FIELDS.declare(POOL, "_logger", type="logging.Logger")
FIELDS.declare(POOL, LOCK)
for _f in ("_min_threads", "_max_threads", "_thread_id", "_timeout", NB, NBA, PEND):
    FIELDS.declare(POOL, _f)
FIELDS.declare(POOL, "_threads", elem_type=THREAD)


def _int_ok(v):
    """int(v) succeeds for the argument kinds of the quantifier (ints, bools, finite floats, numeric strings)"""
    return z3.Or(V.is_int(v), V.is_bool(v), V.is_float(v), z3.And(V.is_str(v), V.int_str_ok(Val.s(v))),
                 z3.And(V.is_bytes(v), V.int_str_ok(Val.y(v))))


def _int_of(v):
    return z3.If(V.is_int(v), Val.i(v), z3.If(V.is_bool(v), z3.If(Val.b(v), 1, 0),
           z3.If(V.is_float(v), ops_trunc(Val.r(v)), z3.If(V.is_str(v), V.int_of_str(Val.s(v)), V.int_of_str(Val.y(v))))))


def ops_trunc(r):
    return z3.If(r >= 0, z3.ToInt(r), -z3.ToInt(-r))


def _clamp(v, lo, hi):
    return z3.If(v < lo, lo, z3.If(v > hi, hi, v))


Contract(
    POOL + ".__init__",
    kinds={},
    ensures=[
        ("bad_max_threads_rejected", lambda c: implies(z3.Or(z3.Not(_int_ok(c.a.max_threads)), _int_of(c.a.max_threads) < 1),
                                                        c.raises(ValueError)), ("C10",)),
        ("bad_min_threads_rejected", lambda c: implies(z3.And(_int_ok(c.a.max_threads), _int_of(c.a.max_threads) >= 1,
                                                              z3.Not(_int_ok(c.a.min_threads))), c.raises(ValueError)), ("C10",)),
        ("sizes_stored_and_clamped", lambda c: implies(
            z3.And(_int_ok(c.a.max_threads), _int_of(c.a.max_threads) >= 1, _int_ok(c.a.min_threads)),
            z3.And(c.returns, c.new(c.a.self, "_max_threads") == V.VInt(_int_of(c.a.max_threads)),
                   c.new(c.a.self, "_min_threads") == V.VInt(_clamp(_int_of(c.a.min_threads), 0, _int_of(c.a.max_threads))))),
         ("C10",)),
        ("starts_stopped_and_empty", lambda c: implies(c.returns, z3.And(
            c.new(c.new(c.a.self, "_done_event"), "_flag") == V.B(True),
            c.new(c.a.self, NB) == V.I(0), c.new(c.a.self, NBA) == V.I(0), c.new(c.a.self, PEND) == V.I(0),
            c.new(c.a.self, "_threads") == V.empty_list(), c.gnew("q_items") == V.empty_list(),
            c.new(c.new(c.a.self, "_queue"), "unfinished_tasks") == V.I(0),
            c.new(c.new(c.a.self, "_queue"), "maxsize") == V.VInt(z3.If(_int_ok(c.a.queue_size), _int_of(c.a.queue_size), 0)))),
         ("C10", "C11")),
    ],
    modifies=[Field(lambda c: c.a.self, f) for f in ("_logger", "_done_event", "_queue", "_timeout", LOCK, "_min_threads",
                                                     "_max_threads", "_threads", "_thread_id", NB, NBA, PEND)] +
             [Fresh(f) for f in ("_flag", "maxsize", "unfinished_tasks", "all_tasks_done", "args")] + [Ghost("q_items")],
    props=("C10", "C11"),
)
REGISTRY_TP = __import__("pyvc.contracts", fromlist=["REGISTRY"]).REGISTRY
REGISTRY_TP[POOL + ".__init__"].monitor = PoolMonitor(exempt=(NB, NBA, THREADS))


def pool_inv(c, p, heap="old"):
    rd = c.old if heap == "old" else c.new
    gh = c.gold if heap == "old" else c.gnew
    q, ev, lk, lg = rd(p, "_queue"), rd(p, "_done_event"), rd(p, LOCK), rd(p, "_logger")
    import queue as _q_, threading as _t_
    return z3.And(
        V.is_obj(q), Val.ref(q) >= 0, Val.ref(q) < ALLOC0, C.subclass(C.cls_of(Val.ref(q)), _q_.Queue),
        V.is_obj(ev), Val.ref(ev) >= 0, Val.ref(ev) < ALLOC0, C.subclass(C.cls_of(Val.ref(ev)), _t_.Event), V.is_bool(rd(ev, "_flag")),
        V.is_obj(lk), Val.ref(lk) >= 0, Val.ref(lk) < ALLOC0, V.is_obj(lg), Val.ref(lg) >= 0, Val.ref(lg) < ALLOC0,
        Val.ref(q) != Val.ref(p), Val.ref(ev) != Val.ref(p), Val.ref(lk) != Val.ref(p), Val.ref(q) != Val.ref(ev),
        Val.ref(lk) != Val.ref(q), Val.ref(lk) != Val.ref(ev),
        V.is_int(rd(p, "_max_threads")), Val.i(rd(p, "_max_threads")) >= 1, V.is_int(rd(p, "_min_threads")),
        Val.i(rd(p, "_min_threads")) >= 0, Val.i(rd(p, "_min_threads")) <= Val.i(rd(p, "_max_threads")),
        V.is_int(rd(p, PEND)), V.is_int(rd(p, "_thread_id")), V.is_int(rd(q, "maxsize")), Val.i(rd(q, "maxsize")) >= 0,
        V.is_int(rd(q, "unfinished_tasks")), Val.i(rd(q, "unfinished_tasks")) >= 0,
        V.is_int(rd(p, NB)), V.is_int(rd(p, NBA)), V.is_list(rd(p, THREADS)), Val.llen(rd(p, THREADS)) >= 0,
        V.is_list(gh("q_items")), Val.llen(gh("q_items")) >= 0,
        V.is_list(gh("pool_accepted")), Val.llen(gh("pool_accepted")) >= 0,
        Val.i(rd(q, "unfinished_tasks")) >= Val.llen(gh("q_items")),       # Queue: every queued item is unfinished
        V.is_obj(rd(q, "all_tasks_done")), Val.ref(rd(q, "all_tasks_done")) >= 0,
        cond_owner(Val.ref(rd(q, "all_tasks_done"))) == Val.ref(q),
        pool_unbounded(Val.ref(p)) == (Val.i(rd(q, "maxsize")) == 0))      # definition of the abbreviation used by callers


from .server import pool_unbounded  # noqa: E402


def lock_inv(c, p, heap="new"):
    """the lock invariant of pyvc.monitor, as a formula over a contract context (C10: never more than max_threads workers)"""
    rd = c.old if heap == "old" else c.new
    nb, nba, mx = rd(p, NB), rd(p, NBA), rd(p, "_max_threads")
    return z3.And(V.is_int(nb), V.is_int(nba), Val.i(nb) >= 0, Val.i(nba) >= 0, V.is_int(mx), Val.i(nb) <= Val.i(mx),
                  V.is_list(rd(p, THREADS)), Val.llen(rd(p, THREADS)) >= 0)


def _stopped(c, p, heap="old"):
    rd = c.old if heap == "old" else c.new
    return rd(rd(p, "_done_event"), "_flag") == V.B(True)


_POOLW = [Field(lambda c: c.a.self, f) for f in (NB, NBA, THREADS, PEND, "_thread_id")]

Contract(
    POOL + ".__start_thread",
    requires=[("pool", lambda c: pool_inv(c, c.a.self))],
    ensures=[
        ("starts_at_most_one_worker", lambda c: z3.And(
            c.returns, V.is_bool(c.ret),
            z3.Or(c.gnew("threads_started") == c.gold("threads_started"),
                  c.gnew("threads_started") == c.gold("threads_started") + 1),
            implies(c.ret == V.B(True), c.gnew("threads_started") == c.gold("threads_started") + 1),
            implies(c.ret == V.B(False), c.gnew("threads_started") == c.gold("threads_started"))), ("C10", "C09")),
        ("refuses_when_stopped", lambda c: implies(_stopped(c, c.a.self), z3.And(
            c.ret == V.B(False), c.gnew("threads_started") == c.gold("threads_started"))), ("C09", "C11")),
        ("stop_flag_untouched", lambda c: _stopped(c, c.a.self, "new") == _stopped(c, c.a.self), ("C11",)),
        ("refuses_only_at_max_or_stopped", lambda c: implies(
            z3.And(c.ret == V.B(False), c.gnew("thread_start_failures") == c.gold("thread_start_failures"),
                   z3.Not(_stopped(c, c.a.self))),
            Val.i(c.new(c.a.self, NB)) >= Val.i(c.new(c.a.self, "_max_threads"))), ("C10",)),
        ("pending_count_untouched", lambda c: c.new(c.a.self, PEND) == c.old(c.a.self, PEND), ("C10",)),
        ("lock_invariant_holds_on_return", lambda c: implies(c.returns, z3.And(lock_inv(c, c.a.self),
                                                                              V.is_int(c.new(c.a.self, "_thread_id")))), ("C10",)),
    ],
    modifies=[Field(lambda c: c.a.self, f) for f in (NB, NBA, THREADS, "_thread_id")] +
             [Ghost("threads_started"), Ghost("thread_start_failures"), Fresh("name"), Fresh("daemon"), Fresh("args")],
    props=("C10", "C09"),
)
REGISTRY_TP[POOL + ".__start_thread"].monitor = PoolMonitor()

Contract(
    POOL + ".enqueue",
    kinds={"method": "val"},
    requires=[("pool", lambda c: pool_inv(c, c.a.self))],
    ensures=[
        ("accepted", lambda c: implies(has_attr(c.a.method, sv("__call__")), z3.And(
            implies(c.returns, z3.And(
                V.is_obj(c.ret), c.fresh_obj(c.ret), z3.Not(_done(c, c.ret)),
                c.gnew("pool_accepted") == _appended(c.gold("pool_accepted"), tup(c.a.method, c.a.args, c.a.kwargs, c.ret)))),
            implies(c.raised, c.gnew("pool_accepted") == c.gold("pool_accepted")))), ("C04", "C09", "C12")),
        ("non_callable_rejected", lambda c: implies(z3.Not(has_attr(c.a.method, sv("__call__"))), z3.And(
            c.raised, c.gnew("pool_accepted") == c.gold("pool_accepted"))), ("C09",)),
        ("nothing_runs_inline", lambda c: z3.And(c.gnew("call_log") == c.gold("call_log"),
                                                 c.gnew("env_calls") == c.gold("env_calls")), ("C04", "C09")),
        ("accepts_callables_when_unbounded", lambda c: implies(z3.And(has_attr(c.a.method, sv("__call__")),
                                                                      pool_unbounded(Val.ref(c.a.self))), c.returns), ("C04", "C09")),
        ("callables_have_call", lambda c: implies(V.is_fun(c.a.method), has_attr(c.a.method, sv("__call__"))), ("C04",)),
        ("pool_stays_wellformed", lambda c: pool_inv(c, c.a.self, "new"), ("C04", "C09", "C12")),
        # C10, safety core of the growth rule: when enqueue returns on a running pool, either a worker was just started,
        # or the workers are not all taken (pending <= threads), or the pool is at max_threads
        ("grows_when_all_workers_are_taken", lambda c: implies(
            z3.And(c.returns, z3.Not(_stopped(c, c.a.self, "new")),
                   c.gnew("thread_start_failures") == c.gold("thread_start_failures")),
            z3.Or(c.gnew("threads_started") == c.gold("threads_started") + 1,
                  Val.i(c.new(c.a.self, PEND)) <= Val.i(c.new(c.a.self, NB)),
                  Val.i(c.new(c.a.self, NB)) >= Val.i(c.new(c.a.self, "_max_threads")))), ("C10", "C09")),
    ],
    modifies=_POOLW + [Ghost(g) for g in ("pool_accepted", "q_items", "q_puts", "threads_started", "thread_start_failures", "call_log", "env_calls")] +
             [Field(lambda c: c.old(c.a.self, "_queue"), "unfinished_tasks")] +
             [Fresh(f) for f in ("_logger", "_done_event", _CB, _EX, _FLOCK, _E + "event", _E + "data", _E + "exception", "_flag",
                                 "name", "daemon", "args")],
    types={"return": FR_},
    props=("C09", "C04", "C12"),
)
REGISTRY_TP[POOL + ".enqueue"].monitor = PoolMonitor()


Contract(
    POOL + ".join",
    requires=[("pool", lambda c: pool_inv(c, c.a.self))],
    ensures=[
        ("true_means_every_task_finished", lambda c: implies(z3.And(c.returns, c.ret == V.B(True)),
                                                            c.new(c.old(c.a.self, "_queue"), "unfinished_tasks") == V.I(0)),
         ("C11",)),
        ("timed_join_reports_whether_all_finished", lambda c: implies(
            z3.And(c.returns, z3.Not(V.is_none(c.a.timeout))),
            z3.And(V.is_bool(c.ret),
                   (c.ret == V.B(True)) == (Val.i(c.new(c.old(c.a.self, "_queue"), "unfinished_tasks")) == 0))), ("C11",)),
        ("returns_a_bool", lambda c: implies(c.returns, V.is_bool(c.ret)), ("C11",)),
        ("untimed_join_returns_true", lambda c: implies(V.is_none(c.a.timeout), z3.And(c.returns, c.ret == V.B(True))), ("C11",)),
    ],
    modifies=[Field(lambda c: c.old(c.a.self, "_queue"), "unfinished_tasks"), Ghost("q_items")],
    props=("C11",),
)

Contract(
    POOL + ".clear",
    requires=[("pool", lambda c: pool_inv(c, c.a.self))],
    ensures=[
        ("queue_emptied", lambda c: implies(c.returns, z3.And(
            c.new(c.old(c.a.self, "_queue"), "unfinished_tasks") == V.I(0))), ("C11",)),
        ("every_dropped_item_is_accounted", lambda c: c.gnew("q_dones") - c.gold("q_dones") == c.gnew("q_gets") - c.gold("q_gets"),
         ("C11", "C09")),
        ("drops_without_running", lambda c: z3.And(c.gnew("call_log") == c.gold("call_log"),
                                                   c.gnew("env_calls") == c.gold("env_calls")), ("C09",)),
    ],
    loops={0: LoopSpec(lambda L: z3.And(
        L.ghost("q_dones") - L.ghost0("q_dones") == L.ghost("q_gets") - L.ghost0("q_gets"),
        V.is_list(L.ghost("q_items")), Val.llen(L.ghost("q_items")) >= 0,
        V.is_int(L.field(L.field0(L.v0("self"), "_queue"), "unfinished_tasks")),
        Val.i(L.field(L.field0(L.v0("self"), "_queue"), "unfinished_tasks")) >= Val.llen(L.ghost("q_items"))), "drain",
        mutates=(("unfinished_tasks", lambda L: L.field0(L.v0("self"), "_queue")),))},
    # C11 (stop() always returns): the wait for the running tasks happens inside the critical section that emptied the
    # queue - enqueue() takes the same lock, so nothing can be queued between the drain and the wait; a task queued there
    # on a stopped pool has no worker, and the wait would never end
    asserts=[("waits_inside_the_critical_section_that_drained", POOL + ".join",
              lambda pc, L: z3.BoolVal(bool(pc.st is not None and pc.st.locks)), ("C11",))],
    modifies=_POOLW + [Field(lambda c: c.old(c.a.self, "_queue"), "unfinished_tasks")] +
             [Ghost(g) for g in ("q_items", "q_gets", "q_dones")],
    props=("C11",),
)
REGISTRY_TP[POOL + ".clear"].monitor = PoolMonitor()


def _typed_counters(L):
    me = L.v0("self")
    return z3.And(V.is_int(L.field(me, NB)), V.is_int(L.field(me, NBA)), V.is_int(L.field(me, PEND)),
                  V.is_int(L.field(me, "_thread_id")), V.is_list(L.field(me, THREADS)), Val.llen(L.field(me, THREADS)) >= 0)


def _queue_counts(L):
    q = L.field0(L.v0("self"), "_queue")
    return z3.And(V.is_int(L.field(q, "unfinished_tasks")), V.is_list(L.ghost("q_items")), Val.llen(L.ghost("q_items")) >= 0,
                  Val.i(L.field(q, "unfinished_tasks")) >= Val.llen(L.ghost("q_items")),
                  V.is_list(L.ghost("pool_accepted")), Val.llen(L.ghost("pool_accepted")) >= 0)


Contract(
    POOL + ".start",
    requires=[("pool", lambda c: pool_inv(c, c.a.self))],
    ensures=[
        ("no_op_when_running", lambda c: implies(z3.Not(_stopped(c, c.a.self)), z3.And(
            c.returns, c.gnew("threads_started") == c.gold("threads_started"), z3.Not(_stopped(c, c.a.self, "new")))),
         ("C11",)),
        ("stop_flag_cleared", lambda c: implies(c.returns, z3.Not(_stopped(c, c.a.self, "new"))), ("C11", "C09")),
        ("queue_untouched", lambda c: z3.And(c.gnew("q_items") == c.gold("q_items"), c.gnew("call_log") == c.gold("call_log")),
         ("C09",)),
    ],
    loops={k: LoopSpec(lambda L: _typed_counters(L), "spawn",
                       mutates=tuple((f, (lambda L: L.v0("self"))) for f in (NB, NBA, THREADS, PEND, "_thread_id")))
           for k in (0, 1)},
    modifies=_POOLW + [Field(lambda c: c.old(c.a.self, "_done_event"), "_flag"), Ghost("threads_started"),
                       Ghost("thread_start_failures"), Fresh("name"), Fresh("daemon"), Fresh("args")],
    props=("C11", "C09", "C10"),
)
REGISTRY_TP[POOL + ".start"].monitor = PoolMonitor()

Contract(
    POOL + ".stop",
    requires=[("pool", lambda c: pool_inv(c, c.a.self))],
    ensures=[
        ("no_op_when_stopped", lambda c: implies(_stopped(c, c.a.self), z3.And(
            c.returns, c.gnew("q_items") == c.gold("q_items"), c.new(c.a.self, THREADS) == c.old(c.a.self, THREADS),
            _stopped(c, c.a.self, "new"))), ("C11",)),
        ("stopped_state_is_restartable", lambda c: implies(z3.And(c.returns, z3.Not(_stopped(c, c.a.self))), z3.And(
            _stopped(c, c.a.self, "new"),
            c.new(c.old(c.a.self, "_queue"), "unfinished_tasks") == V.I(0))), ("C11", "C12")),
        ("no_task_started_by_stop", lambda c: z3.And(c.gnew("call_log") == c.gold("call_log"),
                                                    c.gnew("threads_started") == c.gold("threads_started")), ("C09",)),
    ],
    loops={0: LoopSpec(_queue_counts, "sentinels", mutates=(("unfinished_tasks", lambda L: L.field0(L.v0("self"), "_queue")),))},
    modifies=_POOLW + [Field(lambda c: c.old(c.a.self, "_done_event"), "_flag"),
                       Field(lambda c: c.old(c.a.self, "_queue"), "unfinished_tasks")] +
             [Ghost(g) for g in ("q_items", "q_gets", "q_dones", "q_puts", "pool_accepted")] + [Fresh("args")],
    props=("C11", "C09", "C12"),
)
# `del self._threads[:]` happens after every worker of the snapshot has been joined: the one write outside the lock
REGISTRY_TP[POOL + ".stop"].monitor = PoolMonitor(exempt=(THREADS,))


def _run_inv(L):
    # `already_cleaned` is the code's own record of "this worker has been un-counted"; the conjunct is stated when
    # the local exists (the accounting obligations of pyvc.monitor do not depend on it)
    ac = L.st.locals.get("already_cleaned")
    return z3.And(L.ghost("w_counted"), z3.Not(L.ghost("w_active")),
                  z3.Not(V.truthy(ac)) if z3.is_expr(ac) else z3.BoolVal(True),
                  L.ghost("q_dones") - L.ghost0("q_dones") == L.ghost("q_gets") - L.ghost0("q_gets"),
                  L.ghost("env_calls") - L.ghost0("env_calls") == L.ghost("q_gets") - L.ghost0("q_gets"),
                  V.is_int(L.field(L.v0("self"), PEND)),
                  V.is_int(L.field(L.field0(L.v0("self"), "_queue"), "unfinished_tasks")))


Contract(
    POOL + ".__run",
    requires=[("pool", lambda c: pool_inv(c, c.a.self)),
              ("worker-is-counted-and-idle", lambda c: z3.And(c.gold("w_counted"), z3.Not(c.gold("w_active"))))],
    ensures=[
        ("worker_uncounted_exactly_once", lambda c: z3.Not(c.gnew("w_counted")), ("C10", "C09")),
        ("one_task_done_per_item_taken", lambda c: c.gnew("q_dones") - c.gold("q_dones") == c.gnew("q_gets") - c.gold("q_gets"),
         ("C09", "C11")),
        ("each_task_taken_is_executed_once", lambda c: z3.Or(
            c.gnew("env_calls") - c.gold("env_calls") == c.gnew("q_gets") - c.gold("q_gets"),
            c.gnew("env_calls") - c.gold("env_calls") == c.gnew("q_gets") - c.gold("q_gets") - 1), ("C09",)),
    ],
    loops={0: LoopSpec(_run_inv, "serving", mutates=(("unfinished_tasks", lambda L: L.field0(L.v0("self"), "_queue")),
                                                     (PEND, lambda L: L.v0("self")), (NB, lambda L: L.v0("self")),
                                                     (NBA, lambda L: L.v0("self")), (THREADS, lambda L: L.v0("self"))))},
    modifies=_POOLW + [Field(lambda c: c.old(c.a.self, "_queue"), "unfinished_tasks")] +
             [Ghost(g) for g in ("q_items", "q_gets", "q_dones", "w_counted", "w_active", "call_log", "env_calls", "env_outcomes", "env_kind",
                                 "env_val", "bind_err")] + [Fresh("args")],
    props=("C09", "C10", "C11"),
)
REGISTRY_TP[POOL + ".__run"].monitor = PoolMonitor(worker=True)


# --- PooledJSONRPCServer (C12) -----------------------------------------------------------------------------------------------------
import jsonrpclib.SimpleJSONRPCServer as _S
PSRV = "jsonrpclib.SimpleJSONRPCServer.PooledJSONRPCServer"
RPOOL = "_PooledJSONRPCServer__request_pool"
SERVING = "_PooledJSONRPCServer__serving"
FIELDS.declare(PSRV, RPOOL, type=POOL)
FIELDS.declare(PSRV, SERVING)


def _psrv_inv(c):
    p = c.old(c.a.self, RPOOL)

    class _A(object):
        pass
    c2 = __import__("copy").copy(c)
    a = _A()
    a.self = p
    c2.a = a
    return z3.And(V.is_obj(p), Val.ref(p) >= 0, Val.ref(p) < ALLOC0, Val.ref(p) != Val.ref(c.a.self),
                  C.subclass(C.cls_of(Val.ref(p)), TP.ThreadPool), pool_inv(c2, p),
                  V.is_list(c.gold("shutdown_log")), Val.llen(c.gold("shutdown_log")) >= 0,
                  # the published flag is raised only between "about to serve" and "served": established by serve_forever
                  # (raised before the loop, lowered on every exit), used by server_close
                  V.is_bool(c.old(c.a.self, SERVING)),
                  implies(c.old(c.a.self, SERVING) == V.B(True), c.gold("serving")))


Contract(
    PSRV + ".process_request",
    requires=[("server", _psrv_inv), ("pool-accepts", lambda c: pool_unbounded(Val.ref(c.old(c.a.self, RPOOL))))],
    ensures=[("connection_handed_to_the_pool_once", lambda c: z3.And(
        c.returns, Val.llen(c.gnew("pool_accepted")) == Val.llen(c.gold("pool_accepted")) + 1,
        (lambda task: z3.And(z3.Select(Val.tat(task), 0) == V.VFun(bound_fn(c.a.self, sv("process_request_thread"))),
                             z3.Select(Val.tat(task), 1) == tup(c.a.request, c.a.client_address)))(
            z3.Select(Val.lat(c.gnew("pool_accepted")), Val.llen(c.gold("pool_accepted")))),
        c.gnew("call_log") == c.gold("call_log")), ("C12",))],
    modifies=[Field(lambda c: c.old(c.a.self, RPOOL), f) for f in (NB, NBA, THREADS, PEND, "_thread_id")] +
             [Ghost(g) for g in ("pool_accepted", "q_items", "q_puts", "threads_started", "thread_start_failures", "call_log", "env_calls")] +
             [Field(lambda c: c.old(c.old(c.a.self, RPOOL), "_queue"), "unfinished_tasks")] +
             [Fresh(f) for f in ("_logger", "_done_event", _CB, _EX, _FLOCK, _E + "event", _E + "data", _E + "exception", "_flag",
                                 "name", "daemon", "args")],
    props=("C12",),
)

Contract(
    PSRV + ".serve_forever",
    requires=[("server", _psrv_inv)],
    ensures=[("serving_flag_lowered_on_every_exit", lambda c: c.new(c.a.self, SERVING) == V.B(False), ("C12",)),
             ("serves_once", lambda c: z3.And(
                 Val.llen(c.gnew("shutdown_log")) == Val.llen(c.gold("shutdown_log")) + 1,
                 z3.Select(Val.lat(c.gnew("shutdown_log")), Val.llen(c.gold("shutdown_log"))) == V.S("served"),
                 z3.Not(c.gnew("serving"))), ("C12",))],
    modifies=[Field(lambda c: c.a.self, SERVING), Ghost("serving"), Ghost("shutdown_log")],
    props=("C12",),
)

Contract(
    PSRV + ".server_close",
    # C12: "server_close() alone when it never served" is allowed: no precondition on ghost `serving`
    requires=[("server", _psrv_inv)],
    ensures=[("closes_in_order", lambda c: implies(c.returns, (lambda n0, was: z3.And(
        implies(was, z3.And(Val.llen(c.gnew("shutdown_log")) == n0 + 2,
                            z3.Select(Val.lat(c.gnew("shutdown_log")), n0) == V.S("shutdown"),
                            z3.Select(Val.lat(c.gnew("shutdown_log")), n0 + 1) == V.S("socket_closed"))),
        implies(z3.Not(was), z3.And(Val.llen(c.gnew("shutdown_log")) == n0 + 1,
                                    z3.Select(Val.lat(c.gnew("shutdown_log")), n0) == V.S("socket_closed"))),
        c.new(c.old(c.old(c.a.self, RPOOL), "_done_event"), "_flag") == V.B(True)))(
            Val.llen(c.gold("shutdown_log")), c.old(c.a.self, SERVING) == V.B(True))), ("C12",)),
             ("the_loop_is_not_left_running", lambda c: implies(c.returns, implies(c.old(c.a.self, SERVING) == V.B(True),
                                                                                    z3.Not(c.gnew("serving")))), ("C12",))],
    modifies=[Field(lambda c: c.old(c.a.self, RPOOL), f) for f in (NB, NBA, THREADS, PEND, "_thread_id")] +
             [Field(lambda c: c.old(c.old(c.a.self, RPOOL), "_done_event"), "_flag"),
              Field(lambda c: c.old(c.old(c.a.self, RPOOL), "_queue"), "unfinished_tasks")] +
             [Ghost(g) for g in ("serving", "shutdown_log", "q_items", "q_gets", "q_dones", "q_puts", "pool_accepted")] + [Fresh("args")],
    props=("C12",),
)
