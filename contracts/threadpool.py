"""threadpool.py: EventData, FutureResult (C16, C09), ThreadPool (C09, C10, C11)."""
import z3
from pyvc import vals as V
from pyvc.vals import Val
from .base import *
import jsonrpclib.threadpool as TP

ED = "jsonrpclib.threadpool.EventData"
FR_ = "jsonrpclib.threadpool.FutureResult"
POOL = "jsonrpclib.threadpool.ThreadPool"
_E = "_EventData__"
FIELDS.declare(ED, _E + "event", type=EVENT)
FIELDS.declare(ED, _E + "data")
FIELDS.declare(ED, _E + "exception")
FIELDS.declare(FR_, "_done_event", type=ED)
FIELDS.declare(FR_, "_logger", type="logging.Logger")
FIELDS.declare(FR_, "_FutureResult__callback")
FIELDS.declare(FR_, "_FutureResult__extra")


def ed_inv(c, e, heap="old"):
    rd = c.old if heap == "old" else c.new
    ev = rd(e, _E + "event")
    return z3.And(V.is_obj(ev), Val.ref(ev) >= 0, Val.ref(ev) != Val.ref(e),
                  C.subclass(C.cls_of(Val.ref(ev)), __import__("threading").Event), V.is_bool(rd(ev, "_flag")),
                  z3.Or(V.is_none(rd(e, _E + "exception")),
                        z3.And(V.is_obj(rd(e, _E + "exception")),
                               C.subclass(C.cls_of(Val.ref(rd(e, _E + "exception"))), BaseException))))


def ed_flag(c, e, heap="new"):
    rd = c.old if heap == "old" else c.new
    return Val.b(rd(rd(e, _E + "event"), "_flag"))


Contract(ED + ".__init__",
         ensures=[("fresh_unset_event", lambda c: z3.And(
             c.returns, c.fresh_obj(c.new(c.a.self, _E + "event")), z3.Not(ed_flag(c, c.a.self)),
             V.is_none(c.new(c.a.self, _E + "data")), V.is_none(c.new(c.a.self, _E + "exception"))), ("C16",))],
         modifies=[Field(lambda c: c.a.self, _E + f) for f in ("event", "data", "exception")] + [Fresh("_flag")],
         props=("C16",))

for _prop, _field in (("data", "data"), ("exception", "exception")):
    Contract(ED + "." + _prop,
             ensures=[("reads_the_stored_value", lambda c, _f=_field: z3.And(c.returns, c.ret == c.old(c.a.self, _E + _f)), ("C16", "C09"))],
             modifies=[], props=("C16",))

Contract(ED + ".is_set", requires=[("event", lambda c: ed_inv(c, c.a.self))],
         ensures=[("reads_the_flag", lambda c: z3.And(c.returns, c.ret == V.VBool(ed_flag(c, c.a.self, "old"))), ("C16",))],
         modifies=[], props=("C16",))

Contract(ED + ".set", requires=[("event", lambda c: ed_inv(c, c.a.self))],
         ensures=[("outcome_stored_then_flag_set", lambda c: z3.And(
             c.returns, c.new(c.a.self, _E + "data") == c.a.data, V.is_none(c.new(c.a.self, _E + "exception")),
             ed_flag(c, c.a.self)), ("C16", "C09"))],
         modifies=[Field(lambda c: c.a.self, _E + "data"), Field(lambda c: c.a.self, _E + "exception"),
                   Field(lambda c: c.old(c.a.self, _E + "event"), "_flag")],
         props=("C16",))

Contract(ED + ".raise_exception", requires=[("event", lambda c: ed_inv(c, c.a.self))],
         ensures=[("exception_stored_then_flag_set", lambda c: z3.And(
             c.returns, V.is_none(c.new(c.a.self, _E + "data")), c.new(c.a.self, _E + "exception") == c.a.exception,
             ed_flag(c, c.a.self)), ("C16", "C09"))],
         modifies=[Field(lambda c: c.a.self, _E + "data"), Field(lambda c: c.a.self, _E + "exception"),
                   Field(lambda c: c.old(c.a.self, _E + "event"), "_flag")],
         props=("C16",))

Contract(ED + ".clear", requires=[("event", lambda c: ed_inv(c, c.a.self))],
         ensures=[("reset", lambda c: z3.And(c.returns, z3.Not(ed_flag(c, c.a.self)), V.is_none(c.new(c.a.self, _E + "data")),
                                             V.is_none(c.new(c.a.self, _E + "exception"))), ("C16",))],
         modifies=[Field(lambda c: c.a.self, _E + "data"), Field(lambda c: c.a.self, _E + "exception"),
                   Field(lambda c: c.old(c.a.self, _E + "event"), "_flag")],
         props=("C16",))

Contract(ED + ".wait", requires=[("event", lambda c: ed_inv(c, c.a.self))],
         ensures=[
             ("false_only_while_not_set", lambda c: implies(z3.And(c.returns, z3.Not(V.truthy(c.ret))),
                                                            z3.Not(ed_flag(c, c.a.self, "old"))), ("C16",)),
             ("true_means_set", lambda c: implies(z3.And(c.returns, V.truthy(c.ret)), ed_flag(c, c.a.self)), ("C16",)),
             ("set_event_answers_at_once", lambda c: implies(
                 ed_flag(c, c.a.self, "old"),
                 z3.If(V.is_none(c.old(c.a.self, _E + "exception")), z3.And(c.returns, V.truthy(c.ret)),
                       z3.And(c.raised, c.exc == c.old(c.a.self, _E + "exception")))), ("C16", "C09")),
             ("raises_only_the_stored_exception", lambda c: implies(c.raised, c.exc == c.old(c.a.self, _E + "exception")),
              ("C16",)),
             ("outcome_kept", lambda c: z3.And(c.new(c.a.self, _E + "data") == c.old(c.a.self, _E + "data"),
                                               c.new(c.a.self, _E + "exception") == c.old(c.a.self, _E + "exception")), ("C16",)),
         ],
         modifies=[Field(lambda c: c.old(c.a.self, _E + "event"), "_flag")],
         props=("C16",))
