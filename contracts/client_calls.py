"""Call objects of the client (C01, C06): _Method, _Notify, ServerProxy.__getattr__, MultiCallMethod, MultiCallIterator,
MultiCall.__getattr__, History readers, isbatch / isnotification."""
import z3
from pyvc import vals as V
from pyvc.vals import Val
from .base import *
from .transport import _appended, HIST, SP
import jsonrpclib.jsonrpc as J

FJ = z3.Int("FREE!j")
ENVG = [Ghost(g) for g in ("call_log", "env_calls", "env_outcomes", "env_kind", "env_val", "bind_err")]

# --- _Method: the bound remote method ----------------------------------------------------------------------------------------
METH = "jsonrpclib.jsonrpc._Method"
_SEND, _NAME = "_Method__send", "_Method__name"
FIELDS.declare(METH, _SEND)
FIELDS.declare(METH, _NAME)


def _meth_inv(c):
    return z3.And(V.is_fun(c.old(c.a.self, _SEND)), V.is_str(c.old(c.a.self, _NAME)),
                  V.is_list(c.gold("call_log")), Val.llen(c.gold("call_log")) >= 0,
                  V.is_tuple(c.a.args), Val.tlen(c.a.args) >= 0, V.is_dict(c.a.kwargs), Val.dlen(c.a.kwargs) >= 0)


def _ncalls(c):
    return Val.llen(c.gnew("call_log")) - Val.llen(c.gold("call_log"))


def _sent(c):
    return z3.Select(Val.lat(c.gnew("call_log")), Val.llen(c.gold("call_log")))


Contract(
    METH + ".__call__",
    requires=[("method", _meth_inv)],
    ensures=[
        ("mixed_arguments_rejected_without_sending", lambda c: implies(
            z3.And(Val.tlen(c.a.args) > 0, Val.dlen(c.a.kwargs) > 0),
            z3.And(c.raises(J.ProtocolError), _ncalls(c) == 0)), ("C01", "C14")),
        # C01: exactly one request, for the stored name, with the positional tuple or else the keyword map, as given
        ("sends_one_request_with_the_arguments_as_given", lambda c: implies(
            z3.Not(z3.And(Val.tlen(c.a.args) > 0, Val.dlen(c.a.kwargs) > 0)),
            z3.And(_ncalls(c) == 1,
                   _sent(c) == tup(c.old(c.a.self, _SEND),
                                   tup(c.old(c.a.self, _NAME), z3.If(Val.tlen(c.a.args) > 0, c.a.args, c.a.kwargs)),
                                   V.empty_dict()))), ("C01",)),
        ("returns_what_the_request_returns", lambda c: implies(
            z3.Not(z3.And(Val.tlen(c.a.args) > 0, Val.dlen(c.a.kwargs) > 0)),
            z3.And(implies(c.returns, z3.And(c.gnew("env_kind") == 0, c.ret == c.gnew("env_val"))),
                   implies(c.raised, z3.And(c.gnew("env_kind") == 1, c.exc == c.gnew("env_val"))))), ("C01", "C06")),
    ],
    modifies=ENVG + [Fresh("args")],
    props=("C01",),
)

Contract(
    METH + ".__getattr__",
    kinds={"name": "str"},
    requires=[("method", lambda c: z3.And(V.is_fun(c.old(c.a.self, _SEND)), V.is_str(c.old(c.a.self, _NAME))))],
    ensures=[
        ("dunder_name_is_the_method_name", lambda c: implies(c.a.name == V.S("__name__"),
                                                             z3.And(c.returns, c.ret == c.old(c.a.self, _NAME))), ("C01",)),
        # C01 dotted names: a new method object, same sender, name extended by ".<name>" verbatim
        ("nested_name_is_joined_with_a_dot", lambda c: implies(c.a.name != V.S("__name__"), z3.And(
            c.returns, c.fresh_obj(c.ret), c.new(c.ret, _SEND) == c.old(c.a.self, _SEND),
            c.new(c.ret, _NAME) == V.VStr(z3.Concat(Val.s(c.old(c.a.self, _NAME)), sv("."), Val.s(c.a.name))))), ("C01",)),
        ("receiver_unchanged", lambda c: z3.And(c.new(c.a.self, _NAME) == c.old(c.a.self, _NAME),
                                                c.new(c.a.self, _SEND) == c.old(c.a.self, _SEND)), ("C01",)),
    ],
    modifies=[Fresh(_SEND), Fresh(_NAME)],
    types={"return": METH},
    props=("C01",),
)

NOTI = "jsonrpclib.jsonrpc._Notify"
Contract(NOTI + ".__init__", kinds={"request": "val"},
         ensures=[("sender_stored", lambda c: z3.And(c.returns, c.new(c.a.self, "_request") == c.a.request), ("C01",))],
         modifies=[Field(lambda c: c.a.self, "_request")], props=("C01",))
Contract(NOTI + ".__getattr__", kinds={"name": "str"},
         requires=[("sender", lambda c: V.is_fun(c.old(c.a.self, "_request")))],
         ensures=[("method_object_for_the_notification_sender", lambda c: z3.And(
             c.returns, c.fresh_obj(c.ret), c.new(c.ret, _SEND) == c.old(c.a.self, "_request"), c.new(c.ret, _NAME) == c.a.name),
             ("C01", "C04"))],
         modifies=[Fresh(_SEND), Fresh(_NAME)], types={"return": METH}, props=("C01",))

def _dunder(name):
    s_ = Val.s(name)
    return z3.And(z3.PrefixOf(sv("__"), s_), z3.SuffixOf(sv("__"), s_))


Contract(SP + ".__getattr__", kinds={"name": "str"},
         ensures=[("dunder_names_are_not_proxied", lambda c: implies(_dunder(c.a.name), c.raises(AttributeError)), ("C01",)),
                  ("method_object_bound_to_request", lambda c: implies(z3.Not(_dunder(c.a.name)), z3.And(
                      c.returns, c.fresh_obj(c.ret), c.new(c.ret, _NAME) == c.a.name,
                      c.new(c.ret, _SEND) == V.VFun(bound_fn(c.a.self, sv("_request"))))), ("C01",))],
         modifies=[Fresh(_SEND), Fresh(_NAME)], types={"return": METH}, props=("C01",))

# --- History readers ---------------------------------------------------------------------------------------------------------------
Contract(HIST + ".__init__",
         ensures=[("starts_empty", lambda c: z3.And(c.returns, c.new(c.a.self, "requests") == V.empty_list(),
                                                    c.new(c.a.self, "responses") == V.empty_list()), ("C01",))],
         modifies=[Field(lambda c: c.a.self, "requests"), Field(lambda c: c.a.self, "responses")], props=("C01",))
for _name, _field in (("request", "requests"), ("response", "responses")):
    Contract(HIST + "." + _name,
             requires=[("lists", lambda c, _f=_field: z3.And(V.is_list(c.old(c.a.self, _f)), Val.llen(c.old(c.a.self, _f)) >= 0))],
             ensures=[("latest_or_none", lambda c, _f=_field: z3.And(c.returns, c.ret == z3.If(
                 Val.llen(c.old(c.a.self, _f)) == 0, V.VNone,
                 z3.Select(Val.lat(c.old(c.a.self, _f)), Val.llen(c.old(c.a.self, _f)) - 1))), ("C01",))],
             modifies=[], props=("C01",))
Contract(HIST + ".clear",
         requires=[("lists", lambda c: z3.And(V.is_list(c.old(c.a.self, "requests")), Val.llen(c.old(c.a.self, "requests")) >= 0,
                                              V.is_list(c.old(c.a.self, "responses")), Val.llen(c.old(c.a.self, "responses")) >= 0))],
         ensures=[("emptied", lambda c: z3.And(c.returns, Val.llen(c.new(c.a.self, "requests")) == 0,
                                               Val.llen(c.new(c.a.self, "responses")) == 0), ("C01",))],
         modifies=[Field(lambda c: c.a.self, "requests"), Field(lambda c: c.a.self, "responses")], props=("C01",))

# --- MultiCallMethod ---------------------------------------------------------------------------------------------------------------
MCM = "jsonrpclib.jsonrpc.MultiCallMethod"
FIELDS.declare(MCM, "_config", type=CONFIG)
Contract(MCM + ".__init__", kinds={"method": "val", "notify": "val", "config": "obj:" + CONFIG},
         ensures=[("job_recorded_without_parameters", lambda c: z3.And(
             c.returns, c.new(c.a.self, "method") == c.a.method, c.new(c.a.self, "params") == V.empty_list(),
             c.new(c.a.self, "notify") == c.a.notify, c.new(c.a.self, "_config") == c.a.config), ("C01",))],
         modifies=[Field(lambda c: c.a.self, f) for f in ("method", "params", "notify", "_config")], props=("C01",))
Contract(MCM + ".__call__",
         requires=[("star", lambda c: z3.And(V.is_tuple(c.a.args), Val.tlen(c.a.args) >= 0, V.is_dict(c.a.kwargs), Val.dlen(c.a.kwargs) >= 0))],
         ensures=[
             ("mixed_arguments_rejected", lambda c: implies(z3.And(Val.tlen(c.a.args) > 0, Val.dlen(c.a.kwargs) > 0), z3.And(
                 c.raises(J.ProtocolError), c.new(c.a.self, "params") == c.old(c.a.self, "params"))), ("C01", "C14")),
             ("parameters_stored_as_given", lambda c: implies(
                 z3.Not(z3.And(Val.tlen(c.a.args) > 0, Val.dlen(c.a.kwargs) > 0)),
                 z3.And(c.returns, c.new(c.a.self, "params") == z3.If(Val.dlen(c.a.kwargs) > 0, c.a.kwargs, c.a.args))), ("C01",)),
         ],
         modifies=[Field(lambda c: c.a.self, "params"), Fresh("args")], props=("C01",))
Contract(MCM + ".__getattr__", kinds={"method": "str"},
         requires=[("name", lambda c: V.is_str(c.old(c.a.self, "method")))],
         ensures=[("nested_name_is_joined_with_a_dot", lambda c: z3.And(
             c.returns, c.ret == c.a.self,
             c.new(c.a.self, "method") == V.VStr(z3.Concat(Val.s(c.old(c.a.self, "method")), sv("."), Val.s(c.a.method)))), ("C01",))],
         modifies=[Field(lambda c: c.a.self, "method")], props=("C01",))

# --- MultiCallIterator ---------------------------------------------------------------------------------------------------------------
MCI = "jsonrpclib.jsonrpc.MultiCallIterator"
Contract(MCI + ".__init__", kinds={"results": "val"},
         ensures=[("results_stored", lambda c: z3.And(c.returns, c.new(c.a.self, "results") == c.a.results), ("C01",))],
         modifies=[Field(lambda c: c.a.self, "results")], props=("C01",))
Contract(MCI + ".__len__", requires=[("list", lambda c: z3.And(V.is_list(c.old(c.a.self, "results")), Val.llen(c.old(c.a.self, "results")) >= 0))],
         ensures=[("number_of_results", lambda c: z3.And(c.returns, c.ret == V.VInt(Val.llen(c.old(c.a.self, "results")))), ("C01",))],
         modifies=[], props=("C01",))

# --- isbatch / isnotification ------------------------------------------------------------------------------------------------------
Contract("jsonrpclib.jsonrpc.isnotification", kinds={"request": "val"},
         ensures=[("no_id_member_or_null_id", lambda c: implies(V.is_dict(c.a.request), z3.And(
             c.returns, c.ret == V.VBool(z3.Or(z3.Not(has(c.a.request, "id")), V.is_none(get(c.a.request, "id")))))), ("C04", "C14"))],
         modifies=[], props=("C14",))


# --- MultiCallIterator: every batch result goes through check_for_errors (C06 call site) ----------------------------------------------
def _item_err(c):
    return z3.And(V.is_dict(c.a.item), has(c.a.item, "error"), V.truthy(get(c.a.item, "error")))


def _item_domain(c):
    r = c.a.item
    return z3.And(implies(z3.And(V.is_dict(r), has(r, "jsonrpc")), z3.Or(get(r, "jsonrpc") == V.S("2.0"), get(r, "jsonrpc") == V.S("1.0"))),
                  V.is_dict(r), z3.Or(has(r, "result"), has(r, "error")))


Contract(MCI + ".__get_result", kinds={"item": "json"},
         requires=[("reply-object", _item_domain)],
         ensures=[
             ("error_is_never_swallowed", lambda c: implies(_item_err(c), c.raises(J.ProtocolError)), ("C06", "C01")),
             ("result_returned_unchanged", lambda c: implies(z3.And(z3.Not(_item_err(c)), has(c.a.item, "result")),
                                                             z3.And(c.returns, c.ret == get(c.a.item, "result"))), ("C06", "C01")),
             ("no_result_member_is_an_error_not_none", lambda c: implies(z3.And(z3.Not(_item_err(c)), z3.Not(has(c.a.item, "result"))),
                                                                         c.raises(KeyError)), ("C06",)),
         ],
         modifies=[], props=("C06", "C01"))


def _res_list(c):
    return c.old(c.a.self, "results")


Contract(MCI + ".__getitem__", kinds={"i": "int"},
         requires=[("results", lambda c: z3.And(V.is_list(_res_list(c)), Val.llen(_res_list(c)) >= 0, jsonv(_res_list(c)))),
                   ("index", lambda c: z3.And(Val.i(c.a.i) >= 0, Val.i(c.a.i) < Val.llen(_res_list(c)))),
                   ("reply-objects", lambda c: (lambda r: z3.And(
                       V.is_dict(r), z3.Or(has(r, "result"), has(r, "error")),
                       implies(has(r, "jsonrpc"), z3.Or(get(r, "jsonrpc") == V.S("2.0"), get(r, "jsonrpc") == V.S("1.0")))))(
                       z3.Select(Val.lat(_res_list(c)), Val.i(c.a.i))))],
         ensures=[("ith_result_or_its_error", lambda c: (lambda r: z3.And(
             implies(z3.And(has(r, "error"), V.truthy(get(r, "error"))), c.raises(J.ProtocolError)),
             implies(z3.And(z3.Not(z3.And(has(r, "error"), V.truthy(get(r, "error")))), has(r, "result")),
                     z3.And(c.returns, c.ret == get(r, "result")))))(z3.Select(Val.lat(_res_list(c)), Val.i(c.a.i))), ("C01", "C06", "C03"))],
         modifies=[], props=("C01", "C06"))


# --- MultiCall: jobs are recorded in call order ---------------------------------------------------------------------------------------
MC = "jsonrpclib.jsonrpc.MultiCall"
MCN = "jsonrpclib.jsonrpc.MultiCallNotify"
FIELDS.declare(MC, "_config", type=CONFIG)
FIELDS.declare(MCN, "_config", type=CONFIG)
FIELDS.declare(MCN, "multicall", type=MC)
Contract(MC + ".__init__", kinds={"server": "val", "config": "obj:" + CONFIG},
         ensures=[("no_job_yet", lambda c: z3.And(c.returns, c.new(c.a.self, "_job_list") == V.empty_list(),
                                                  c.new(c.a.self, "_server") == c.a.server, c.new(c.a.self, "_config") == c.a.config), ("C01",))],
         modifies=[Field(lambda c: c.a.self, f) for f in ("_server", "_job_list", "_config")], props=("C01",))


def _jobs(c, obj, heap="old"):
    return (c.old if heap == "old" else c.new)(obj, "_job_list")


def _job_appended(c, mc, notify):
    old, new = _jobs(c, mc), _jobs(c, mc, "new")
    job = c.ret
    return z3.And(c.returns, c.fresh_obj(job), new == _appended(old, job),
                  c.new(job, "method") == c.a.name, c.new(job, "params") == V.empty_list(),
                  c.new(job, "notify") == V.B(notify))


Contract(MC + ".__getattr__", kinds={"name": "str"},
         requires=[("jobs", lambda c: z3.And(V.is_list(_jobs(c, c.a.self)), Val.llen(_jobs(c, c.a.self)) >= 0,
                                             V.is_obj(c.old(c.a.self, "_config")), Val.ref(c.old(c.a.self, "_config")) >= 0))],
         ensures=[("call_job_appended_last", lambda c: z3.And(_job_appended(c, c.a.self, False),
                                                               c.new(c.ret, "_config") == c.old(c.a.self, "_config")), ("C01", "C03"))],
         modifies=[Field(lambda c: c.a.self, "_job_list")] + [Fresh(f) for f in ("method", "params", "notify", "_config")],
         types={"return": MCM}, props=("C01",))
Contract(MCN + ".__init__", kinds={"multicall": "obj:" + MC, "config": "obj:" + CONFIG},
         ensures=[("parent_stored", lambda c: z3.And(c.returns, c.new(c.a.self, "multicall") == c.a.multicall,
                                                     c.new(c.a.self, "_config") == c.a.config), ("C01",))],
         modifies=[Field(lambda c: c.a.self, f) for f in ("multicall", "_config")], props=("C01",))
Contract(MCN + ".__getattr__", kinds={"name": "str"},
         requires=[("jobs", lambda c: (lambda m: z3.And(V.is_obj(m), Val.ref(m) >= 0, Val.ref(m) != Val.ref(c.a.self),
                                                        V.is_list(_jobs(c, m)), Val.llen(_jobs(c, m)) >= 0,
                                                        V.is_obj(c.old(c.a.self, "_config")), Val.ref(c.old(c.a.self, "_config")) >= 0))(
             c.old(c.a.self, "multicall")))],
         ensures=[("notification_job_appended_last", lambda c: _job_appended(c, c.old(c.a.self, "multicall"), True), ("C01", "C04"))],
         modifies=[Field(lambda c: c.old(c.a.self, "multicall"), "_job_list")] + [Fresh(f) for f in ("method", "params", "notify", "_config")],
         types={"return": MCM}, props=("C01",))


# --- MultiCallMethod.request / MultiCall._request: one exchange for the whole batch -------------------------------------------------
from .transport import _sp_inv, _P as _SPP                                   # noqa: E402
FIELDS.declare(MC, "_server", type=SP)
FIELDS.declare(MC, "_job_list", elem_type=MCM)


def _mcm_domain(c):
    p, cfg = c.old(c.a.self, "params"), c.old(c.a.self, "_config")
    return z3.And(z3.Or(V.is_list(p), V.is_tuple(p), V.is_dict(p)), implies(z3.Not(V.is_dict(p)), V.seq_len(p) >= 0),
                  implies(V.is_dict(p), Val.dlen(p) >= 0), V.is_str(c.old(c.a.self, "method")),
                  z3.Or(V.is_bool(c.old(c.a.self, "notify")), V.is_none(c.old(c.a.self, "notify"))),
                  V.is_obj(cfg), Val.ref(cfg) >= 0, Val.ref(cfg) < ALLOC0, Val.ref(cfg) != Val.ref(c.a.self),
                  C.subclass(C.cls_of(Val.ref(cfg)), __import__("jsonrpclib.config", fromlist=["Config"]).Config),
                  valid_config(c, cfg), jsonv(p),
                  z3.Or(V.is_none(c.a.rpcid), V.is_str(c.a.rpcid), V.is_number(c.a.rpcid)), z3.Or(V.is_none(c.a.encoding), V.is_str(c.a.encoding)))


Contract(
    MCM + ".request",
    kinds={"encoding": "val", "rpcid": "val"},
    requires=[("job", _mcm_domain)],
    ensures=[
        ("text_of_a_2_0_message_for_the_recorded_method", lambda c: implies(c.returns, z3.And(
            V.is_str(c.ret), c.ret == V.VStr(V.jdumps_of(c.gnew("last_dumped"))),
            (lambda D: z3.And(V.is_dict(D), get(D, "method") == c.old(c.a.self, "method"), get(D, "jsonrpc") == V.S("2.0"),
                              has(D, "id") == z3.Not(V.truthy(c.old(c.a.self, "notify")))))(c.gnew("last_dumped")))), ("C01", "C14")),
        ("job_untouched", lambda c: z3.And(c.new(c.a.self, "params") == c.old(c.a.self, "params"),
                                           c.new(c.a.self, "method") == c.old(c.a.self, "method")), ("C01",)),
    ],
    modifies=[Ghost("uuid_ctr"), Ghost("xlate_log"), Ghost("last_dumped"), Ghost("x_kind"), Ghost("x_val")],
    props=("C01",),
)


def _mc_domain(c):
    srv = c.old(c.a.self, "_server")
    jobs = _jobs(c, c.a.self)

    class _A(object):
        pass
    c2 = __import__("copy").copy(c)
    a = _A()
    a.self = srv
    c2.a = a
    return z3.And(V.is_obj(srv), Val.ref(srv) >= 0, Val.ref(srv) < ALLOC0, Val.ref(srv) != Val.ref(c.a.self),
                  C.subclass(C.cls_of(Val.ref(srv)), J.ServerProxy), _sp_inv(c2),
                  V.is_list(jobs), Val.llen(jobs) >= 0,
                  # every recorded job is a well-formed MultiCallMethod (FJ is universally quantified)
                  z3.Implies(z3.And(FJ >= 0, FJ < V.seq_len(jobs)), _job_ok(c, z3.Select(V.seq_at(jobs), FJ), srv)))


def _job_ok(c, job, srv):
    class _A(object):
        pass
    c3 = __import__("copy").copy(c)
    a = _A()
    a.self, a.rpcid, a.encoding = job, V.VNone, V.VNone
    c3.a = a
    return z3.And(V.is_obj(job), Val.ref(job) >= 0, Val.ref(job) < ALLOC0, Val.ref(job) != Val.ref(c.a.self), Val.ref(job) != Val.ref(srv),
                  C.subclass(C.cls_of(Val.ref(job)), J.MultiCallMethod), _mcm_domain(c3))


def _sent_body(c):
    return z3.Select(Val.tat(z3.Select(Val.lat(c.gnew("sent")), Val.llen(c.gold("sent")))), 2)


Contract(
    MC + "._request",
    requires=[("batch", _mc_domain)],
    ensures=[
        ("empty_batch_sends_nothing", lambda c: implies(Val.llen(_jobs(c, c.a.self)) == 0, z3.And(
            c.returns, V.is_none(c.ret), c.gnew("sent") == c.gold("sent"))), ("C01",)),
        ("one_exchange_for_the_whole_batch", lambda c: implies(Val.llen(_jobs(c, c.a.self)) > 0,
                                                               Val.llen(c.gnew("sent")) <= Val.llen(c.gold("sent")) + 1), ("C01", "C03")),
        ("body_is_a_bracketed_array_text", lambda c: implies(
            z3.And(Val.llen(_jobs(c, c.a.self)) > 0, Val.llen(c.gnew("sent")) == Val.llen(c.gold("sent")) + 1),
            z3.And(V.is_str(_sent_body(c)), z3.PrefixOf(sv("["), Val.s(_sent_body(c))), z3.SuffixOf(sv("]"), Val.s(_sent_body(c))))),
         ("C01", "C14")),
        ("jobs_consumed_and_results_wrapped", lambda c: implies(z3.And(c.returns, Val.llen(_jobs(c, c.a.self)) > 0), z3.And(
            Val.llen(_jobs(c, c.a.self, "new")) == 0, c.fresh_obj(c.ret))),
         ("C01",)),
    ],
    modifies=[Field(lambda c: c.a.self, "_job_list"), Fresh("results"),
              Ghost("sent"), Ghost("imports"), Ghost("constructs"), Ghost("xlate_log"), Ghost("x_kind"), Ghost("x_val"),
              Ghost("checked_name"), Ghost("bean_attrs"), Ghost("transport_failed"), Ghost("uuid_ctr"), Ghost("last_dumped"),
              Field(lambda c: c.old(c.old(c.a.self, "_server"), _SPP + "history"), "requests"),
              Field(lambda c: c.old(c.old(c.a.self, "_server"), _SPP + "history"), "responses")],
    types={"return": MCI},
    props=("C01",),
)


# --- the notification entry points (C04: a client-side notification goes through _request_notify / a notify job) -----------------
FIELDS.declare(NOTI, "_request")
Contract(SP + "._notify",
         ensures=[("notifier_bound_to_the_notification_sender", lambda c: z3.And(
             c.returns, c.fresh_obj(c.ret), c.new(c.ret, "_request") == V.VFun(bound_fn(c.a.self, sv("_request_notify")))),
             ("C04", "C01"))],
         modifies=[Fresh("_request")], types={"return": NOTI}, props=("C04", "C01"))
Contract(MC + "._notify",
         requires=[("config", lambda c: z3.And(V.is_obj(c.old(c.a.self, "_config")), Val.ref(c.old(c.a.self, "_config")) >= 0))],
         ensures=[("notifier_records_into_this_batch", lambda c: z3.And(
             c.returns, c.fresh_obj(c.ret), c.new(c.ret, "multicall") == c.a.self,
             c.new(c.ret, "_config") == c.old(c.a.self, "_config")), ("C04", "C01"))],
         modifies=[Fresh("multicall"), Fresh("_config")], types={"return": MCN}, props=("C04", "C01"))
