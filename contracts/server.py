"""Dispatcher (C02, C03, C04, C05, C13): get_version, validate_request, _dispatch,
_marshaled_single_dispatch, _unmarshaled_dispatch, _marshaled_dispatch.

The specification of one entry (`wellformed`, `usable_id`, `is_notification`, `form`, the code table) is
written from the property statements (DESIGN Appendix A), not from the code."""
import z3
from pyvc.solve import forall_pat
from pyvc import vals as V
from pyvc.vals import Val
from pyvc import ops
from .base import *
from .jsonrpc_msg import (jcd, jcl, is_v2, vfloat, _error_shape, fault_inv, FAULT, eff_classes)
import jsonrpclib.jsonrpc as J
import jsonrpclib.SimpleJSONRPCServer as S
import jsonrpclib.config as _cfgmod

DISP = "jsonrpclib.SimpleJSONRPCServer.SimpleJSONRPCDispatcher"
POOLF = "_SimpleJSONRPCDispatcher__notification_pool"

FIELDS.declare(DISP, POOLF, type="jsonrpclib.threadpool.ThreadPool")

T.declare_ghost("bind_err", z3.BoolSort())     # the last environment call failed while binding its arguments
T.declare_ghost("pool_accepted", Val)          # tasks handed to a ThreadPool.enqueue
pool_unbounded = z3.Function("pool_unbounded", z3.IntSort(), z3.BoolSort())   # the pool's queue has no size limit


# --- the specification of one request entry -----------------------------------------------------------------------
def strlike(v):
    return z3.Or(V.is_str(v), V.is_bytes(v))


def _wellformed_def(e):
    return z3.And(V.is_dict(e), z3.Or(has(e, "jsonrpc"), has(e, "id")),
                  has(e, "method"), strlike(get(e, "method")), V.truthy(get(e, "method")),
                  z3.Or(z3.Not(has(e, "params")), V.is_list(get(e, "params")), V.is_dict(get(e, "params")),
                        V.is_tuple(get(e, "params"))))


def _usable_id_def(e):
    return z3.If(z3.And(V.is_dict(e), has(e, "id")), get(e, "id"), V.VNone)


def _is_notification_def(e):
    """C04: id absent, null or empty"""
    return z3.Or(z3.Not(has(e, "id")), V.is_none(get(e, "id")), get(e, "id") == V.S(""))


wellformed = V._define("wellformed", [Val, z3.BoolSort()], _wellformed_def)
is_notification = V._define("is_notification", [Val, z3.BoolSort()], _is_notification_def)
usable_id = V._define("usable_id", [Val, Val], _usable_id_def)


def form_is_v1(e, server_version):
    """C13: a request without a jsonrpc member is answered in 1.0 form, one with it in the server's form"""
    return z3.Or(z3.And(V.is_dict(e), z3.Not(has(e, "jsonrpc"))), z3.Not(server_version >= 2))


def server_version(c, disp, heap="old"):
    rd = c.old if heap == "old" else c.new
    return version_num(rd(rd(disp, "json_config"), "version"))


def disp_inv(c, d, heap="old"):
    rd = c.old if heap == "old" else c.new
    cfg = rd(d, "json_config")
    pool = rd(d, POOLF)
    return z3.And(V.is_obj(cfg), C.subclass(C.cls_of(Val.ref(cfg)), _cfgmod.Config), Val.ref(cfg) < ALLOC0,
                  Val.ref(cfg) >= 0, Val.ref(cfg) != Val.ref(d), valid_config(c, cfg, heap),
                  V.is_dict(rd(d, "funcs")), V.is_str(rd(d, "encoding")),
                  z3.Or(V.is_none(pool), z3.And(V.is_obj(pool), Val.ref(pool) < ALLOC0, Val.ref(pool) >= 0,
                                                Val.ref(pool) != Val.ref(d), Val.ref(pool) != Val.ref(cfg),
                                                pool_unbounded(Val.ref(pool)), _pool_inv(c, pool, heap))))


def _pool_inv(c, pool, heap):
    from .threadpool import pool_inv      # the notification pool is a well-formed ThreadPool (contracts/threadpool.py)
    return pool_inv(c, pool, heap)


_POOL_GHOSTS = ("q_items", "q_puts", "threads_started", "thread_start_failures")
_POOL_FRESH = ("_logger", "_done_event", "_FutureResult__callback", "_FutureResult__extra", "_FutureResult__lock", "_EventData__event", "_EventData__data",
               "_EventData__exception", "_flag", "name", "daemon", "args")


def pool_frame(disp):
    """what handing a notification to the dispatcher's pool may write: the pool's counters, its queue's task count"""
    pool = lambda c: c.old(disp(c), POOLF)
    return ([Field(pool, f) for f in ("_ThreadPool__nb_threads", "_ThreadPool__nb_active_threads", "_threads",
                                      "_ThreadPool__nb_pending_task", "_thread_id")] +
            [Field(lambda c: c.old(pool(c), "_queue"), "unfinished_tasks")] +
            [Ghost(g) for g in _POOL_GHOSTS] + [Fresh(f) for f in _POOL_FRESH])


def config_unchanged(c, cfg):
    """C13: serving never changes a configuration object"""
    return z3.And(*[c.new(cfg, f) == c.old(cfg, f) for f in
                    ("version", "use_jsonclass", "content_type", "user_agent", "serialize_method", "ignore_attribute",
                     "classes", "serialize_handlers")])


# --- get_version ---------------------------------------------------------------------------------------------------------
Contract(
    "jsonrpclib.SimpleJSONRPCServer.get_version",
    kinds={"request": "dict"},
    ensures=[("version", lambda c: z3.And(c.returns, c.ret == z3.If(has(c.a.request, "jsonrpc"), vfloat(2),
                                                                    z3.If(has(c.a.request, "id"), vfloat(1), V.VNone))),
              ("C05", "C13"))],
    modifies=[],
    props=("C05", "C13"),
)


# --- Config.copy ------------------------------------------------------------------------------------------------------
_CFG_FIELDS = ("version", "use_jsonclass", "content_type", "user_agent", "serialize_method", "ignore_attribute",
               "classes", "serialize_handlers")


def _copy_post(c):
    r = c.ret
    return z3.And(c.returns, c.fresh_obj(r), C.exact(C.cls_of(Val.ref(r)), _cfgmod.Config),
                  *[c.new(r, f) == c.old(c.a.self, f) for f in _CFG_FIELDS])


Contract(
    "jsonrpclib.config.Config.copy",
    requires=[("config", lambda c: valid_config(c, c.a.self))],
    ensures=[("fresh_equal_copy", _copy_post, ("C13",)),
             ("original_untouched", lambda c: config_unchanged(c, c.a.self), ("C13",))],
    modifies=[Fresh(f) for f in _CFG_FIELDS],
    types={"return": CONFIG},
    props=("C13",),
)

Contract(
    "jsonrpclib.config.Config.__init__",
    kinds={},
    ensures=[("stores", lambda c: z3.And(
        c.returns, c.new(c.a.self, "version") == c.a.version, c.new(c.a.self, "use_jsonclass") == c.a.use_jsonclass,
        c.new(c.a.self, "content_type") == c.a.content_type,
        implies(z3.Not(V.is_none(c.a.user_agent)), c.new(c.a.self, "user_agent") == c.a.user_agent),
        V.is_str(c.new(c.a.self, "user_agent")) if False else z3.BoolVal(True),
        c.new(c.a.self, "serialize_method") == c.a.serialize_method,
        c.new(c.a.self, "ignore_attribute") == c.a.ignore_attribute,
        V.is_dict(c.new(c.a.self, "classes")), Val.dlen(c.new(c.a.self, "classes")) == 0,
        c.new(c.a.self, "serialize_handlers") == z3.If(V.truthy(c.a.serialize_handlers), c.a.serialize_handlers,
                                                        V.empty_dict())), ("C13", "C20"))],
    modifies=[Field(lambda c: c.a.self, f) for f in _CFG_FIELDS],
    props=("C13",),
)


# --- validate_request ----------------------------------------------------------------------------------------------------
def _fault_obj(c, f, code, rid, v1, server_cfg):
    """f is a freshly built Fault with the given code / id whose configuration answers in the given form"""
    cfg = c.new(f, "config")
    return z3.And(c.fresh_obj(f), C.exact(C.cls_of(Val.ref(f)), J.Fault),
                  c.new(f, "faultCode") == V.I(code), V.is_str(c.new(f, "faultString")), c.new(f, "rpcid") == rid,
                  V.is_none(c.new(f, "data")),
                  V.is_obj(cfg), C.subclass(C.cls_of(Val.ref(cfg)), _cfgmod.Config), valid_config(c, cfg, "new"),
                  Val.ref(cfg) != Val.ref(f),
                  z3.Or(cfg == server_cfg, c.fresh_obj(cfg)),
                  (version_num(c.new(cfg, "version")) >= 2) == z3.Not(v1),
                  c.new(cfg, "content_type") == c.old(server_cfg, "content_type"),
                  c.new(cfg, "use_jsonclass") == c.old(server_cfg, "use_jsonclass"),
                  c.new(cfg, "serialize_handlers") == c.old(server_cfg, "serialize_handlers"),
                  c.new(cfg, "serialize_method") == c.old(server_cfg, "serialize_method"),
                  c.new(cfg, "ignore_attribute") == c.old(server_cfg, "ignore_attribute"))


def _validated(e, e2):
    """e2 is e with the params member defaulted to []"""
    return z3.And(V.is_dict(e2), Val.dhas(e2) == z3.Store(Val.dhas(e), ks("params"), True),
                  Val.dget(e2) == z3.If(has(e, "params"), Val.dget(e), z3.Store(Val.dget(e), ks("params"), V.empty_list())),
                  Val.dlen(e2) == z3.If(has(e, "params"), Val.dlen(e), Val.dlen(e) + 1))


Contract(
    "jsonrpclib.SimpleJSONRPCServer.validate_request",
    kinds={"json_config": "obj:" + CONFIG},
    requires=[("config", lambda c: valid_config(c, c.a.json_config))],
    ensures=[
        ("accepts_wellformed", lambda c: implies(wellformed(c.a.request),
                                                 z3.And(c.returns, c.ret == V.B(True),
                                                        _validated(c.a.request, c.after("request")))), ("C02", "C05")),
        ("rejects_malformed", lambda c: implies(z3.Not(wellformed(c.a.request)),
                                                z3.And(c.returns, V.is_obj(c.ret), c.fresh_obj(c.ret),
                                                       C.exact(C.cls_of(Val.ref(c.ret)), J.Fault),
                                                       c.new(c.ret, "faultCode") == V.I(-32600))), ("C02", "C05")),
        ("fault_carries_id", lambda c: implies(z3.Not(wellformed(c.a.request)),
                                               c.new(c.ret, "rpcid") == usable_id(c.a.request)), ("C03",)),
        ("fault_form", lambda c: implies(z3.Not(wellformed(c.a.request)),
                                         _fault_obj(c, c.ret, -32600, usable_id(c.a.request),
                                                    form_is_v1(c.a.request, version_num(c.old(c.a.json_config, "version"))),
                                                    c.a.json_config)), ("C13",)),
        ("non_dict_untouched", lambda c: implies(z3.Not(V.is_dict(c.a.request)), c.after("request") == c.a.request),
         ("C02",)),
        ("server_config_untouched", lambda c: config_unchanged(c, c.a.json_config), ("C13",)),
    ],
    modifies=[Param("request")] + [Fresh(f) for f in ("faultCode", "faultString", "rpcid", "config", "data")]
             + [Fresh(f) for f in _CFG_FIELDS],
    types={"return": FAULT},
    props=("C02", "C03", "C05", "C13"),
)


def _appended(lst, item):
    return V.VList(Val.llen(lst) + 1, z3.Store(Val.lat(lst), Val.llen(lst), item))


# --- _dispatch --------------------------------------------------------------------------------------------------------------
def _eff_cfg(c):
    return z3.If(V.truthy(c.a.config), c.a.config, c.old(c.a.self, "json_config"))


def _fault_ret(c, code):
    f = c.ret
    return z3.And(c.returns, V.is_obj(f), c.fresh_obj(f), C.exact(C.cls_of(Val.ref(f)), J.Fault),
                  c.new(f, "faultCode") == V.I(code), V.is_str(c.new(f, "faultString")),
                  V.is_none(c.new(f, "rpcid")), V.is_none(c.new(f, "data")), c.new(f, "config") == _eff_cfg(c))


def _called_with(c, f):
    """exactly one environment call, of f, with the request's params as positional or keyword arguments"""
    p = c.a.params
    rec = z3.If(V.is_list(p), tup(f, p, V.empty_dict()), tup(f, V.mk_tuple([]), p))
    return z3.And(c.gnew("call_log") == _appended(c.gold("call_log"), rec),
                  c.gnew("env_calls") == c.gold("env_calls") + 1)


def _not_called(c):
    return z3.And(c.gnew("call_log") == c.gold("call_log"), c.gnew("env_calls") == c.gold("env_calls"))


def _lookup(c):
    """(found, f, via_instance_dispatch) from the statement: the funcs table, else the instance's own _dispatch,
    else dotted resolution on the instance (no segment starting with '_')"""
    d = c.a.self
    funcs, inst, m = c.old(d, "funcs"), c.old(d, "instance"), c.a.method
    in_table = V.dict_has(funcs, ks_of(m))
    has_inst = z3.Not(V.is_none(inst))
    inst_disp = z3.And(z3.Not(in_table), has_inst, has_attr(inst, sv("_dispatch")))
    res = z3.And(z3.Not(in_table), has_inst, z3.Not(has_attr(inst, sv("_dispatch"))), V.is_str(m), resolvable(inst, Val.s(m)))
    found = z3.Or(z3.And(in_table, z3.Not(V.is_none(V.dict_get(funcs, ks_of(m))))), res)
    f = z3.If(in_table, V.dict_get(funcs, ks_of(m)), resolved(inst, Val.s(m)))
    return found, f, inst_disp


def ks_of(v):
    """the dict key the code looks a method name up with (str or bytes)"""
    return ops.to_key(v)


def _mentions(c, msg):
    e = c.gnew("env_val")
    return z3.And(z3.Contains(msg, C.cname(C.cls_of(Val.ref(e)))), z3.Contains(msg, V.str_of(e)))


def _dispatch_domain(c):
    cfg = c.a.config
    return z3.And(disp_inv(c, c.a.self), strlike(c.a.method), V.truthy(c.a.method),
                  z3.Or(V.is_list(c.a.params), V.is_dict(c.a.params), V.is_tuple(c.a.params)),
                  z3.Or(V.is_none(cfg), z3.And(V.is_obj(cfg), C.subclass(C.cls_of(Val.ref(cfg)), _cfgmod.Config),
                                               valid_config(c, cfg), Val.ref(cfg) >= 0)),
                  z3.BoolVal(True))


def _funcs_are_callables(c):
    funcs = c.old(c.a.self, "funcs")
    m = c.a.method
    inst = c.old(c.a.self, "instance")
    return z3.And(implies(V.dict_has(funcs, ks_of(m)), V.is_fun(V.dict_get(funcs, ks_of(m)))),
                  z3.Or(V.is_none(inst), z3.And(V.is_obj(inst), Val.ref(inst) >= 0, Val.ref(inst) < ALLOC0,
                                                z3.Not(C.subclass(C.cls_of(Val.ref(inst)), S.SimpleJSONRPCDispatcher)))),
                  implies(has_attr(inst, sv("_dispatch")), V.is_fun(attr_of(inst, sv("_dispatch")))),
                  implies(resolvable(inst, Val.s(m)), V.is_fun(resolved(inst, Val.s(m)))))


Contract(
    "jsonrpclib.SimpleJSONRPCServer.SimpleJSONRPCDispatcher._dispatch",
    kinds={"config": "val"},
    requires=[("domain", _dispatch_domain)],
    ensures=[
        ("unknown_method", lambda c: (lambda found, f, idisp: implies(
            z3.And(z3.Not(found), z3.Not(idisp)), z3.And(_fault_ret(c, -32601), _not_called(c))))(*_lookup(c)), ("C05",)),
        ("private_names_rejected", lambda c: (lambda found, f, idisp: implies(
            z3.And(z3.Not(V.dict_has(c.old(c.a.self, "funcs"), ks_of(c.a.method))), z3.Not(idisp),
                   private_segment(Val.s(c.a.method))),
            z3.And(_fault_ret(c, -32601), _not_called(c))))(*_lookup(c)), ("C05",)),
        ("called_exactly_once", lambda c: (lambda found, f, idisp: implies(found, _called_with(c, f)))(*_lookup(c)),
         ("C05", "C01", "C04")),
        ("returns_value", lambda c: (lambda found, f, idisp: implies(
            z3.And(found, c.gnew("env_kind") == 0), z3.And(c.returns, c.ret == c.gnew("env_val"))))(*_lookup(c)),
         ("C05", "C01")),
        ("value_is_not_a_fault", lambda c: (lambda found, f, idisp: implies(
            z3.And(c.returns, c.gnew("env_kind") == 0, z3.Or(found, idisp)),
            z3.Not(z3.And(V.is_obj(c.ret), C.subclass(C.cls_of(Val.ref(c.ret)), J.Fault)))))(*_lookup(c)), ("C02", "C05")),
        ("argument_mismatch", lambda c: (lambda found, f, idisp: implies(
            z3.And(found, c.gnew("env_kind") == 1, c.gnew("bind_err")), _fault_ret(c, -32602)))(*_lookup(c)), ("C05",)),
        ("method_exception", lambda c: (lambda found, f, idisp: implies(
            z3.And(found, c.gnew("env_kind") == 1, z3.Not(c.gnew("bind_err"))),
            z3.And(_fault_ret(c, -32603), _mentions(c, Val.s(c.new(c.ret, "faultString"))))))(*_lookup(c)), ("C05",)),
        ("never_raises_itself", lambda c: (lambda found, f, idisp: implies(z3.Not(idisp), c.returns))(*_lookup(c)),
         ("C02", "C05")),
        ("instance_dispatcher_called_once", lambda c: (lambda found, f, idisp: implies(
            idisp, z3.And(c.gnew("env_calls") >= c.gold("env_calls") + 1, c.gnew("env_calls") <= c.gold("env_calls") + 2)))(
            *_lookup(c)), ("C05",)),
        ("raises_only_what_the_instance_raises", lambda c: implies(
            c.raised, z3.And(c.exc == c.gnew("env_val"), c.gnew("env_kind") == 1, c.raises(Exception))), ("C02", "C05")),
        ("result_is_value_or_fresh_fault", lambda c: implies(
            z3.And(c.returns, V.is_obj(c.ret), C.subclass(C.cls_of(Val.ref(c.ret)), J.Fault)),
            z3.And(c.fresh_obj(c.ret), V.is_int(c.new(c.ret, "faultCode")), V.is_str(c.new(c.ret, "faultString")),
                   V.is_none(c.new(c.ret, "data")), V.is_none(c.new(c.ret, "rpcid")),
                   c.new(c.ret, "config") == _eff_cfg(c))), ("C02",)),
        ("configs_untouched", lambda c: z3.And(config_unchanged(c, c.old(c.a.self, "json_config")),
                                               implies(V.truthy(c.a.config), config_unchanged(c, c.a.config))), ("C13",)),
    ],
    modifies=[Ghost("call_log"), Ghost("env_calls"), Ghost("env_outcomes"), Ghost("env_kind"), Ghost("env_val"), Ghost("bind_err")] +
             [Fresh(f) for f in ("faultCode", "faultString", "rpcid", "config", "data")],
    props=("C05",),
)


# --- well-formed responses (C02), from the statement ---------------------------------------------------------------------
def _wf_error_def(e):
    return z3.And(V.is_dict(e), has(e, "code"), V.is_int(get(e, "code")), has(e, "message"), V.is_str(get(e, "message")))


def _wf_response_def(r):
    v2 = has(r, "jsonrpc")
    two = z3.And(get(r, "jsonrpc") == V.S("2.0"), has(r, "id"), has(r, "result") != has(r, "error"),
                 exact_keys(r, [("jsonrpc", z3.BoolVal(True)), ("id", z3.BoolVal(True)),
                                ("result", has(r, "result")), ("error", has(r, "error"))]),
                 implies(has(r, "error"), wf_error(get(r, "error"))))
    one = z3.And(exact_keys(r, [("result", True), ("error", True), ("id", True)]),
                 z3.Or(z3.And(V.is_none(get(r, "error"))),
                       z3.And(V.is_none(get(r, "result")), wf_error(get(r, "error")))))
    return z3.And(V.is_dict(r), z3.If(v2, two, one))


wf_error = V._define("wf_error", [Val, z3.BoolSort()], _wf_error_def)
wf_response = V._define("wf_response", [Val, z3.BoolSort()], lambda r: _wf_response_def(r))


def is_error_response(r):
    return z3.And(has(r, "error"), z3.Not(V.is_none(get(r, "error"))))


def err_code(r):
    return get(get(r, "error"), "code")


def _single_domain(c):
    e = c.a.request
    dm = c.a.dispatch_method
    m = get(e, "method")
    funcs = c.old(c.a.self, "funcs")
    inst = c.old(c.a.self, "instance")
    return z3.And(disp_inv(c, c.a.self), wellformed(e), has(e, "params"), strlike(m),
                  z3.Or(V.is_list(get(e, "params")), V.is_dict(get(e, "params")), V.is_tuple(get(e, "params"))),
                  z3.Or(V.is_none(dm), V.is_fun(dm)),
                  z3.BoolVal(True))


def _lookup_e(c):
    d = c.a.self
    e = c.a.request
    funcs, inst, m = c.old(d, "funcs"), c.old(d, "instance"), get(e, "method")
    in_table = V.dict_has(funcs, ks_of(m))
    has_inst = z3.Not(V.is_none(inst))
    inst_disp = z3.And(z3.Not(in_table), has_inst, has_attr(inst, sv("_dispatch")))
    res = z3.And(z3.Not(in_table), has_inst, z3.Not(has_attr(inst, sv("_dispatch"))), V.is_str(m), resolvable(inst, Val.s(m)))
    return z3.Or(z3.And(in_table, z3.Not(V.is_none(V.dict_get(funcs, ks_of(m))))), res), inst_disp


def _answered(c):
    return z3.Not(is_notification(c.a.request))


def _sv(c):
    return server_version(c, c.a.self)


_SINGLE = "jsonrpclib.SimpleJSONRPCServer.SimpleJSONRPCDispatcher._marshaled_single_dispatch"

Contract(
    _SINGLE,
    kinds={"request": "val", "dispatch_method": "val"},
    requires=[("domain", _single_domain)],
    ensures=[
        ("never_raises", lambda c: c.returns, ("C02",)),
        ("notification_unanswered", lambda c: implies(is_notification(c.a.request), V.is_none(c.ret)), ("C04",)),
        ("pooled_notification_is_queued_not_run", lambda c: implies(
            z3.And(is_notification(c.a.request), z3.Not(V.is_none(c.old(c.a.self, POOLF)))),
            z3.And(c.gnew("call_log") == c.gold("call_log"), c.gnew("env_calls") == c.gold("env_calls"),
                   Val.llen(c.gnew("pool_accepted")) == Val.llen(c.gold("pool_accepted")) + 1,
                   (lambda task: z3.And(
                       z3.Select(Val.tat(z3.Select(Val.tat(task), 1)), 0) == get(c.a.request, "method"),
                       z3.Select(Val.tat(z3.Select(Val.tat(task), 1)), 1) == get(c.a.request, "params"),
                       implies(z3.Not(V.is_none(c.a.dispatch_method)), z3.Select(Val.tat(task), 0) == c.a.dispatch_method)))(
                       z3.Select(Val.lat(c.gnew("pool_accepted")), Val.llen(c.gold("pool_accepted")))))), ("C04",)),
        ("inline_runs_at_most_once", lambda c: implies(
            z3.And(z3.Or(V.is_none(c.old(c.a.self, POOLF)), _answered(c)),
                   z3.Or(z3.Not(V.is_none(c.a.dispatch_method)), z3.Not(_lookup_e(c)[1]))),
            z3.And(c.gnew("pool_accepted") == c.gold("pool_accepted"),
                   z3.Or(c.gnew("env_calls") == c.gold("env_calls"), c.gnew("env_calls") == c.gold("env_calls") + 1))),
         ("C04", "C01")),
        ("custom_dispatch_called_once", lambda c: implies(
            z3.And(z3.Not(V.is_none(c.a.dispatch_method)), z3.Or(V.is_none(c.old(c.a.self, POOLF)), _answered(c))),
            c.gnew("call_log") == _appended(c.gold("call_log"), tup(c.a.dispatch_method,
                                                                   tup(get(c.a.request, "method"), get(c.a.request, "params")),
                                                                   V.empty_dict()))), ("C04", "C03")),
        ("default_dispatch_called_once_if_known", lambda c: (lambda found, idisp: implies(
            z3.And(V.is_none(c.a.dispatch_method), z3.Or(V.is_none(c.old(c.a.self, POOLF)), _answered(c)), z3.Not(idisp)),
            z3.If(found, c.gnew("env_calls") == c.gold("env_calls") + 1,
                  z3.And(c.gnew("env_calls") == c.gold("env_calls"), c.gnew("call_log") == c.gold("call_log")))))(
            *_lookup_e(c)), ("C04", "C05")),
        ("answered_with_wellformed_object", lambda c: implies(_answered(c), wf_response(c.ret)), ("C02",)),
        ("id_echo", lambda c: implies(_answered(c), get(c.ret, "id") == get(c.a.request, "id")), ("C03",)),
        ("form", lambda c: implies(_answered(c), has(c.ret, "jsonrpc") == z3.Not(form_is_v1(c.a.request, _sv(c)))), ("C13",)),
        ("unknown_method_code", lambda c: (lambda found, idisp: implies(
            z3.And(_answered(c), V.is_none(c.a.dispatch_method), z3.Not(found), z3.Not(idisp)),
            z3.And(is_error_response(c.ret), err_code(c.ret) == V.I(-32601))))(*_lookup_e(c)), ("C05",)),
        ("argument_mismatch_code", lambda c: (lambda found, idisp: implies(
            z3.And(_answered(c), V.is_none(c.a.dispatch_method), found, c.gnew("env_kind") == 1, c.gnew("bind_err")),
            z3.And(is_error_response(c.ret), err_code(c.ret) == V.I(-32602))))(*_lookup_e(c)), ("C05",)),
        ("method_exception_code", lambda c: (lambda found, idisp: implies(
            z3.And(_answered(c), z3.Or(found, z3.Not(V.is_none(c.a.dispatch_method))), z3.Not(idisp),
                   c.gnew("env_kind") == 1, z3.Not(c.gnew("bind_err"))),
            z3.And(is_error_response(c.ret), err_code(c.ret) == V.I(-32603),
                   _mentions(c, Val.s(get(get(c.ret, "error"), "message"))))))(*_lookup_e(c)), ("C05",)),
        ("success_carries_translated_result", lambda c: (lambda found, idisp: implies(
            z3.And(_answered(c), z3.Or(found, z3.Not(V.is_none(c.a.dispatch_method))), z3.Not(idisp),
                   c.gnew("env_kind") == 0, z3.Not(is_error_response(c.ret))),
            z3.And(has(c.ret, "result"), get(c.ret, "result") == _translated_by(c, c.gnew("env_val")))))(*_lookup_e(c)),
         ("C01", "C05")),
        ("conversion_failure_code", lambda c: (lambda found, idisp: implies(
            z3.And(_answered(c), z3.Or(found, z3.Not(V.is_none(c.a.dispatch_method))), z3.Not(idisp),
                   c.gnew("env_kind") == 0, is_error_response(c.ret)),
            err_code(c.ret) == V.I(-32603)))(*_lookup_e(c)), ("C03", "C05")),
        ("configs_untouched", lambda c: config_unchanged(c, c.old(c.a.self, "json_config")), ("C13",)),
        ("dispatcher_stays_wellformed", lambda c: disp_inv(c, c.a.self, "new"), ("C04", "C02")),
    ],
    modifies=[Ghost("call_log"), Ghost("env_calls"), Ghost("env_outcomes"), Ghost("env_kind"), Ghost("env_val"), Ghost("bind_err"),
              Ghost("pool_accepted"), Ghost("uuid_ctr"), Ghost("xlate_log"), Ghost("x_kind"), Ghost("x_val")] +
             [Fresh(f) for f in ("faultCode", "faultString", "rpcid", "config", "data", "id", "version") + _CFG_FIELDS] +
             pool_frame(lambda c: c.a.self),
    props=("C02", "C03", "C04", "C05", "C13"),
)


def _translated_by(c, v):
    cfg = c.old(c.a.self, "json_config")
    env = tup(c.old(cfg, "serialize_handlers"), c.old(cfg, "serialize_method"), c.old(cfg, "ignore_attribute"),
              V.empty_list())
    return z3.If(V.truthy(c.old(cfg, "use_jsonclass")), jcd(env, v), v)


# --- _unmarshaled_dispatch: single requests and batches ---------------------------------------------------------------------
def _unanswered_def(e):
    """an entry that produces no response object: a well-formed notification (C04)"""
    return z3.And(wellformed(e), is_notification(e))


unanswered = V._define("unanswered", [Val, z3.BoolSort()], _unanswered_def)

# answered(batch, k): number of response objects owed to the first k entries (C03: one per non-notification entry,
# in order, plus one error per invalid entry)
answered = z3.RecFunction("answered", Val, z3.IntSort(), z3.IntSort())
_b, _k = z3.Const("answered!b", Val), z3.Int("answered!k")
z3.RecAddDefinition(answered, [_b, _k],
                    z3.If(_k <= 0, z3.IntVal(0),
                          answered(_b, _k - 1) + z3.If(unanswered(z3.Select(Val.lat(_b), _k - 1)), 0, 1)))


def _batch_inv(L):
    resp = L.v("responses")
    req = L.seq
    i = L.i
    j = z3.Int("j!inv")
    k = z3.Int("k!inv")
    d = L.v0("self")
    cfg = L.field0(d, "json_config")
    return z3.And(
        V.is_list(resp), Val.llen(resp) == answered(req, i), Val.llen(resp) >= 0,
        forall_pat([j], z3.Implies(z3.And(j >= 0, j < Val.llen(resp)), wf_response(z3.Select(Val.lat(resp), j))),
                  [z3.Select(Val.lat(resp), j)]),
        forall_pat([k], z3.Implies(z3.And(k >= 0, k < i, z3.Not(unanswered(z3.Select(Val.lat(req), k)))),
                                  z3.And(answered(req, k) >= 0, answered(req, k) < Val.llen(resp),
                                         get(z3.Select(Val.lat(resp), answered(req, k)), "id") ==
                                         usable_id(z3.Select(Val.lat(req), k)))),
                  [answered(req, k)]),
        # C13: the server's configuration object is never written while serving
        *[L.field(cfg, f) == L.field0(cfg, f) for f in _CFG_FIELDS] +
        # the dispatcher (with its notification pool) stays well formed from one entry to the next
        [disp_inv(L.now(), d)])


def _um_domain(c):
    return z3.And(disp_inv(c, c.a.self), z3.Or(V.is_none(c.a.dispatch_method), V.is_fun(c.a.dispatch_method)),
                  implies(V.is_list(c.a.request), Val.llen(c.a.request) >= 0))


def _um_batch_post(c):
    req, r = c.a.request, c.ret
    n = Val.llen(req)
    j = z3.Int("j!post")
    k = z3.Int("k!post")
    return z3.And(
        implies(c.returns, z3.And(
            V.is_list(r), Val.llen(r) >= 1, Val.llen(r) == answered(req, n),
            forall_pat([j], z3.Implies(z3.And(j >= 0, j < Val.llen(r)), wf_response(z3.Select(Val.lat(r), j))),
                      [z3.Select(Val.lat(r), j)]),
            forall_pat([k], z3.Implies(z3.And(k >= 0, k < n, z3.Not(unanswered(z3.Select(Val.lat(req), k)))),
                                      get(z3.Select(Val.lat(r), answered(req, k)), "id") == usable_id(z3.Select(Val.lat(req), k))),
                      [answered(req, k)]))),
        implies(c.raised, z3.And(c.raises_exactly(S.NoMulticallResult), answered(req, n) == 0)))


_UM = "jsonrpclib.SimpleJSONRPCServer.SimpleJSONRPCDispatcher._unmarshaled_dispatch"

Contract(
    _UM,
    kinds={"request": "val", "dispatch_method": "val"},
    requires=[("domain", _um_domain)],
    ensures=[
        ("empty_request_is_invalid", lambda c: implies(z3.Not(V.truthy(c.a.request)), z3.And(
            c.returns, wf_response(c.ret), is_error_response(c.ret), err_code(c.ret) == V.I(-32600),
            V.is_none(get(c.ret, "id")), _not_called(c))), ("C02", "C05")),
        ("single_entry", lambda c: implies(z3.And(V.truthy(c.a.request), z3.Not(V.is_list(c.a.request))), z3.And(
            c.returns,
            z3.If(unanswered(c.a.request), V.is_none(c.ret),
                  z3.And(wf_response(c.ret), get(c.ret, "id") == usable_id(c.a.request),
                         has(c.ret, "jsonrpc") == z3.Not(form_is_v1(c.a.request, _sv(c))))),
            implies(z3.Not(wellformed(c.a.request)),
                    z3.And(is_error_response(c.ret), err_code(c.ret) == V.I(-32600), _not_called(c))))),
         ("C02", "C03", "C04", "C05", "C13")),
        ("batch", lambda c: implies(z3.And(V.truthy(c.a.request), V.is_list(c.a.request)), _um_batch_post(c)),
         ("C02", "C03", "C04")),
        ("raises_only_for_silent_batch", lambda c: implies(c.raised, z3.And(V.is_list(c.a.request), V.truthy(c.a.request),
                                                                            c.raises_exactly(S.NoMulticallResult))),
         ("C02", "C03")),
        ("configs_untouched", lambda c: config_unchanged(c, c.old(c.a.self, "json_config")), ("C13",)),
    ],
    loops={0: LoopSpec(_batch_inv, "batch")},
    modifies=[Ghost("call_log"), Ghost("env_calls"), Ghost("env_outcomes"), Ghost("env_kind"), Ghost("env_val"), Ghost("bind_err"),
              Ghost("pool_accepted"), Ghost("uuid_ctr"), Ghost("xlate_log"), Ghost("x_kind"), Ghost("x_val")] +
             [Fresh(f) for f in ("faultCode", "faultString", "rpcid", "config", "data", "id", "version", "args") + _CFG_FIELDS] +
             pool_frame(lambda c: c.a.self),
    props=("C02", "C03", "C04", "C05", "C13"),
)


# --- _marshaled_dispatch: text in, text out --------------------------------------------------------------------------------
def _parsed(c):
    """the request value the dispatcher works on: JSON decoding followed by the class translator when enabled"""
    cfg = c.old(c.a.self, "json_config")
    jl = jloads_of(Val.s(c.a.data))
    return z3.If(V.truthy(c.old(cfg, "use_jsonclass")),
                 z3.If(V.is_none(jl), V.VNone, jcl(eff_classes(c.old(cfg, "classes")), jl)), jl)


def _md_reply(c):
    """what a returned, non-empty text stands for"""
    req = z3.If(c.a.data == V.S(""), V.VNone, _parsed(c))
    D = c.gnew("last_dumped")
    n = Val.llen(req)
    j = z3.Int("j!md")
    k = z3.Int("k!md")
    single = z3.And(wf_response(D),
                    implies(z3.And(V.truthy(req), wellformed(req)), get(D, "id") == get(req, "id")),
                    implies(z3.Not(z3.And(V.truthy(req), wellformed(req))),
                            z3.And(is_error_response(D), err_code(D) == V.I(-32600), get(D, "id") == usable_id(req))),
                    implies(V.truthy(req), has(D, "jsonrpc") == z3.Not(form_is_v1(req, _sv(c)))))
    batch = z3.And(V.is_list(D), Val.llen(D) >= 1, Val.llen(D) == answered(req, n),
                   z3.ForAll([j], z3.Implies(z3.And(j >= 0, j < Val.llen(D)), wf_response(z3.Select(Val.lat(D), j)))),
                   z3.ForAll([k], z3.Implies(z3.And(k >= 0, k < n, z3.Not(unanswered(z3.Select(Val.lat(req), k)))),
                                             get(z3.Select(Val.lat(D), answered(req, k)), "id") ==
                                             usable_id(z3.Select(Val.lat(req), k)))))
    return z3.If(z3.And(V.truthy(req), V.is_list(req)), batch, single)


def _md_loaded(c):
    """the text was decoded (and translated) successfully"""
    return z3.Or(c.a.data == V.S(""), z3.And(json_text(Val.s(c.a.data)), c.gnew("md_loaded")))


T.declare_ghost("md_loaded", z3.BoolSort())

_MD = "jsonrpclib.SimpleJSONRPCServer.SimpleJSONRPCDispatcher._marshaled_dispatch"

Contract(
    _MD,
    kinds={"data": "str", "dispatch_method": "val"},
    requires=[("domain", lambda c: z3.And(disp_inv(c, c.a.self),
                                          z3.Or(V.is_none(c.a.dispatch_method), V.is_fun(c.a.dispatch_method))))],
    ensures=[
        ("malformed_json_is_parse_error", lambda c: implies(
            z3.And(c.a.data != V.S(""), z3.Not(json_text(Val.s(c.a.data)))),
            z3.And(implies(c.returns, z3.And(
                c.ret == V.VStr(V.jdumps_of(c.gnew("last_dumped"))),
                (lambda D: z3.And(wf_response(D), is_error_response(D), err_code(D) == V.I(-32700), V.is_none(get(D, "id")),
                                  has(D, "jsonrpc") == (_sv(c) >= 2)))(c.gnew("last_dumped")))),
                   _not_called(c), c.gnew("pool_accepted") == c.gold("pool_accepted"))), ("C02", "C05", "C08")),
        ("reply_is_text_of_wellformed_objects", lambda c: implies(
            z3.And(c.returns, z3.Or(c.a.data == V.S(""), json_text(Val.s(c.a.data)))),
            z3.And(V.is_str(c.ret),
                   z3.Or(c.ret == V.S(""),
                         z3.And(c.ret == V.VStr(V.jdumps_of(c.gnew("last_dumped"))),
                                z3.Or(_md_reply(c),
                                      # the class translator rejected the payload: a single -32700
                                      (lambda D: z3.And(V.truthy(c.old(c.old(c.a.self, "json_config"), "use_jsonclass")),
                                                        wf_response(D), is_error_response(D),
                                                        err_code(D) == V.I(-32700), V.is_none(get(D, "id")),
                                                        _not_called(c)))(c.gnew("last_dumped"))))))),
         ("C02", "C03", "C05", "C08", "C13")),
        ("raises_only_if_backend_rejects_reply", lambda c: implies(c.raised, c.raises(TypeError)), ("C02", "C05", "C08")),
        ("inert_translator_when_disabled", lambda c: implies(
            z3.Not(V.truthy(c.old(c.old(c.a.self, "json_config"), "use_jsonclass"))),
            z3.And(c.gnew("imports") == c.gold("imports"), c.gnew("constructs") == c.gold("constructs"))), ("C08",)),
        ("configs_untouched", lambda c: config_unchanged(c, c.old(c.a.self, "json_config")), ("C13",)),
    ],
    modifies=[Ghost("call_log"), Ghost("env_calls"), Ghost("env_outcomes"), Ghost("env_kind"), Ghost("env_val"), Ghost("bind_err"),
              Ghost("pool_accepted"), Ghost("uuid_ctr"), Ghost("xlate_log"), Ghost("x_kind"), Ghost("x_val"), Ghost("last_dumped"), Ghost("imports"),
              Ghost("constructs"), Ghost("checked_name"), Ghost("bean_attrs")] +
             [Fresh(f) for f in ("faultCode", "faultString", "rpcid", "config", "data", "id", "version", "args") + _CFG_FIELDS] +
             pool_frame(lambda c: c.a.self),
    props=("C02", "C03", "C05", "C08", "C13"),
)


# --- do_POST (C17, C12, C02) ----------------------------------------------------------------------------------------------------
SERVER = "jsonrpclib.SimpleJSONRPCServer.SimpleJSONRPCServer"


def _srv(c, heap="old"):
    return (c.old if heap == "old" else c.new)(c.a.self, "server")


def _post_domain(c):
    srv = _srv(c)
    h = c.old(c.a.self, "headers")
    body, pos = c.gold("in_body"), c.gold("in_pos")

    class _A(object):
        pass
    c2 = __import__("copy").copy(c)
    a = _A()
    a.self = srv
    c2.a = a
    return z3.And(V.is_obj(srv), Val.ref(srv) >= 0, Val.ref(srv) < ALLOC0, Val.ref(srv) != Val.ref(c.a.self),
                  C.subclass(C.cls_of(Val.ref(srv)), S.SimpleJSONRPCServer), disp_inv(c2, srv),
                  V.is_dict(h), jsonv(h), pos >= 0, pos <= z3.Length(body),
                  V.is_list(c.gold("out")), Val.llen(c.gold("out")) >= 0,
                  implies(has_attr_field(c, c.a.self, "_dispatch"), V.is_fun(c.old(c.a.self, "_dispatch"))),
                  V.is_str(c.old(c.a.self, "path")),
                  # header values are strings; a Content-Length that parses as an integer is not negative
                  implies(has(h, "content-length"), V.is_str(get(h, "content-length"))),
                  implies(z3.And(has(h, "content-length"), V.is_str(get(h, "content-length")),
                                 V.int_str_ok(Val.s(get(h, "content-length")))),
                          V.int_of_str(Val.s(get(h, "content-length"))) >= 0))


def has_attr_field(c, obj, name):
    return z3.Select(c.old_arr("?has:" + name), Val.ref(obj))


def _o(c, k):
    return z3.Select(Val.lat(c.gnew("out")), Val.llen(c.gold("out")) + k)


def _consumed(L):
    return L.ghost("in_pos") - L.ghost0("in_pos")


def _read_inv(L):
    chunks = L.v("chunks")
    rem = L.v("size_remaining")
    total = L.v0("size_remaining")
    return z3.And(V.is_list(chunks), Val.llen(chunks) >= 0, all_bytes(chunks), V.is_int(rem), V.is_int(total),
                  _consumed(L) >= 0, L.ghost("in_pos") <= z3.Length(L.ghost("in_body")),
                  L.ghost("in_body") == L.ghost0("in_body"),
                  bjoin_of(chunks) == z3.SubString(L.ghost("in_body"), L.ghost0("in_pos"), _consumed(L)),
                  Val.i(rem) == Val.i(total) - _consumed(L), Val.i(rem) >= 0,
                  L.ghost("out") == L.ghost0("out"))


def _whole_body_assert(pc, L):
    """at the call of the dispatcher: the text it receives is the UTF-8 decoding of all the bytes read, however they
    were split into reads"""
    body, p0 = L.ghost("in_body"), z3.Const("G0!in_pos", z3.IntSort())
    return pc.a.data == V.VStr(V.dec_utf8(z3.SubString(body, p0, L.ghost("in_pos") - p0)))


Contract(
    HANDLER + ".do_POST",
    requires=[("handler", _post_domain)],
    ensures=[
        ("raises_only_if_the_backend_rejects_the_error_reply", lambda c: implies(c.raised, c.raises(TypeError)), ("C02", "C12")),
        ("reply_declares_type_and_byte_length", lambda c: implies(
            z3.And(Val.llen(c.gnew("out")) >= Val.llen(c.gold("out")) + 4,
                   z3.Select(Val.tat(_o(c, 0)), 0) == V.S("status"),
                   z3.Or(z3.Select(Val.tat(_o(c, 0)), 1) == V.I(200), z3.Select(Val.tat(_o(c, 0)), 1) == V.I(500))),
            z3.And(_o(c, 1) == tup(V.S("header"), V.S("Content-type"), c.old(c.old(_srv(c), "json_config"), "content_type")),
                   z3.Select(Val.tat(_o(c, 2)), 0) == V.S("header"), z3.Select(Val.tat(_o(c, 2)), 1) == V.S("Content-length"),
                   _o(c, 3) == tup(V.S("end_headers")),
                   z3.Or(z3.And(Val.llen(c.gnew("out")) == Val.llen(c.gold("out")) + 4,
                                z3.Select(Val.tat(_o(c, 2)), 2) == V.S("0")),
                         z3.And(Val.llen(c.gnew("out")) == Val.llen(c.gold("out")) + 5,
                                z3.Select(Val.tat(_o(c, 4)), 0) == V.S("write"),
                                V.is_bytes(z3.Select(Val.tat(_o(c, 4)), 1)),
                                z3.Select(Val.tat(_o(c, 2)), 2) ==
                                V.VStr(V.int_to_str(z3.Length(Val.y(z3.Select(Val.tat(_o(c, 4)), 1))))))))), ("C17",)),
        ("writes_one_response", lambda c: z3.And(V.is_list(c.gnew("out")), Val.llen(c.gnew("out")) >= Val.llen(c.gold("out")) + 1),
         ("C12",)),
        ("handler_only_state", lambda c: config_unchanged(c, c.old(_srv(c), "json_config")), ("C13", "C12")),
    ],
    asserts=[("dispatcher_gets_the_decoding_of_the_whole_body", _MD, _whole_body_assert, ("C17",))],
    # C12 (a request cannot keep the handler busy for ever): every further round of the read loop has consumed at least one byte
    loops={0: LoopSpec(_read_inv, "read-loop", variant=lambda L: Val.i(L.v("size_remaining")))},
    modifies=[Ghost(g) for g in ("out", "in_pos", "call_log", "env_calls", "env_outcomes", "env_kind", "env_val", "bind_err", "pool_accepted",
                                 "uuid_ctr", "xlate_log", "x_kind", "x_val", "last_dumped", "imports", "constructs",
                                 "checked_name", "bean_attrs")] +
             [Fresh(f) for f in ("faultCode", "faultString", "rpcid", "config", "data", "id", "version", "args") + _CFG_FIELDS] +
             pool_frame(_srv),
    props=("C17", "C12", "C02"),
)
# the many raising points of the try block all enter one `except:`; their states are joined before the handler runs
# (an over-approximation, justified by join-frame obligations) instead of running the handler once per point
__import__("pyvc.contracts", fromlist=["REGISTRY"]).REGISTRY[HANDLER + ".do_POST"].join_handlers = True


# --- CGI handler (C17): the reply is announced with its byte length and the configured content type ------------------------------------
CGI = "jsonrpclib.SimpleJSONRPCServer.CGIJSONRPCRequestHandler"


def _cgi_domain(c):
    return z3.And(disp_inv(c, c.a.self), V.is_list(c.gold("out")), Val.llen(c.gold("out")) >= 0, V.is_str(c.a.request_text))


def _co(c, k):
    return z3.Select(Val.lat(c.gnew("out")), Val.llen(c.gold("out")) + k)


Contract(
    CGI + ".handle_jsonrpc",
    kinds={"request_text": "str"},
    requires=[("handler", _cgi_domain)],
    ensures=[("six_steps", lambda c: implies(c.returns, Val.llen(c.gnew("out")) == Val.llen(c.gold("out")) + 6), ("C17",)),
             ("declares_the_configured_content_type", lambda c: implies(c.returns, _co(c, 0) == tup(
                 V.S("print"), V.S("Content-Type:"), c.old(c.old(c.a.self, "json_config"), "content_type"))), ("C17",)),
             # the declared length is the number of BYTES written, and the body is written after the blank line
             ("declares_the_byte_length_of_the_body", lambda c: implies(c.returns, z3.And(
                 z3.Select(Val.tat(_co(c, 1)), 0) == V.S("print"), z3.Select(Val.tat(_co(c, 1)), 1) == V.S("Content-Length:"),
                 z3.Select(Val.tat(_co(c, 4)), 0) == V.S("write"), V.is_bytes(z3.Select(Val.tat(_co(c, 4)), 1)),
                 z3.Select(Val.tat(_co(c, 1)), 2) == V.VInt(z3.Length(Val.y(z3.Select(Val.tat(_co(c, 4)), 1)))))), ("C17",)),
             ("headers_end_before_the_body", lambda c: implies(c.returns, z3.And(
                 _co(c, 2) == tup(V.S("print")), _co(c, 3) == tup(V.S("flush")), _co(c, 5) == tup(V.S("flush")))), ("C17",)),
             ("nothing_written_when_it_fails", lambda c: implies(c.raised, c.gnew("out") == c.gold("out")), ("C17",)),
             ("config_untouched", lambda c: config_unchanged(c, c.old(c.a.self, "json_config")), ("C13",))],
    modifies=[Ghost(g) for g in ("out", "call_log", "env_calls", "env_outcomes", "env_kind", "env_val", "bind_err", "pool_accepted",
                                 "uuid_ctr", "xlate_log", "x_kind", "x_val", "last_dumped", "imports", "constructs",
                                 "checked_name", "bean_attrs")] +
             [Fresh(f) for f in ("faultCode", "faultString", "rpcid", "config", "data", "id", "version", "args") + _CFG_FIELDS] +
             pool_frame(lambda c: c.a.self),
    props=("C17",),
)


# --- dispatcher construction and notification pool ------------------------------------------------------------------------------------
Contract(
    DISP + ".__init__",
    kinds={"encoding": "val", "config": "obj:" + CONFIG},
    requires=[("config", lambda c: valid_config(c, c.a.config)), ("encoding", lambda c: z3.Or(V.is_none(c.a.encoding), V.is_str(c.a.encoding)))],
    ensures=[("fresh_dispatcher", lambda c: z3.And(
        c.returns, c.new(c.a.self, "json_config") == c.a.config, V.is_none(c.new(c.a.self, POOLF)),
        c.new(c.a.self, "funcs") == V.empty_dict(), V.is_none(c.new(c.a.self, "instance")),
        c.new(c.a.self, "encoding") == z3.If(V.truthy(c.a.encoding), c.a.encoding, V.S("UTF-8"))), ("C02", "C13")),
             ("config_shared_not_copied_nor_written", lambda c: config_unchanged(c, c.a.config), ("C13",))],
    modifies=[Field(lambda c: c.a.self, f) for f in ("json_config", POOLF, "funcs", "instance", "allow_none", "encoding", "use_builtin_types")],
    props=("C13",),
)
Contract(
    DISP + ".set_notification_pool",
    kinds={"thread_pool": "val"},
    ensures=[("pool_replaced", lambda c: z3.And(c.returns, c.new(c.a.self, POOLF) == c.a.thread_pool), ("C04",))],
    modifies=[Field(lambda c: c.a.self, POOLF)],
    props=("C04",),
)


# C13 under concurrency: a Config that exists before the call (the server's, the shared default) is not written at all while
# serving - not even temporarily: other connections read it at the same time.  Every write to a Config field inside these
# functions (and the helpers executed in place) must go to an object allocated during the call (obligation no-transient-write).
for _k in (DISP + "._marshaled_single_dispatch", DISP + "._unmarshaled_dispatch", DISP + "._marshaled_dispatch", DISP + "._dispatch",
           "jsonrpclib.SimpleJSONRPCServer.validate_request", HANDLER + ".do_POST", CGI + ".handle_jsonrpc"):
    __import__("pyvc.contracts", fromlist=["REGISTRY"]).REGISTRY[_k].never_written = _CFG_FIELDS
