"""C14 (message construction), C08 (use_jsonclass gates): Payload.*, Fault.*, dump, dumps, load, loads."""
import z3
from pyvc import vals as V
from pyvc.vals import Val
from .base import *
import jsonrpclib.jsonrpc as J
import jsonrpclib.config as _cfgmod

PAYLOAD = "jsonrpclib.jsonrpc.Payload"
FAULT = "jsonrpclib.jsonrpc.Fault"

# specification functions for the class translator (defined by the contracts of jsonclass.dump/load)
jcd = z3.Function("jc_dump", Val, Val, Val)        # jcd(handlers-state, obj): image of jsonclass.dump
jcl = z3.Function("jc_load", Val, Val, Val)        # jcl(classes, obj): image of jsonclass.load


def eff_classes(classes):
    """jsonclass.load only tests the truth value of its class table: an empty table is no table"""
    return z3.If(V.truthy(classes), classes, V.VNone)


def supplied(rid):
    """C14: a caller-supplied id = any non-empty string or any number (including 0)"""
    return z3.Or(z3.And(V.is_str(rid), z3.Length(Val.s(rid)) > 0), V.is_number(rid))


def absent_id(rid):
    """no usable id was supplied: None, the empty string, or False (a boolean is not a number)"""
    return z3.Or(V.is_none(rid), rid == V.S(""), rid == V.B(False))


def vfloat(x):
    return V.VFloat(z3.RealVal(x))


def payload_inv(c, p, heap="old"):
    rd = c.old if heap == "old" else c.new
    ver = rd(p, "version")
    return z3.Or(ver == vfloat(1), ver == vfloat(2))


def is_v2(ver):
    return Val.r(ver) >= 2


# --- Payload --------------------------------------------------------------------------------------------------
Contract(
    "jsonrpclib.jsonrpc.Payload.__init__",
    kinds={"config": "obj:" + CONFIG},
    requires=[("config", lambda c: valid_config(c, c.a.config)),
              ("version", lambda c: z3.Or(z3.Not(V.truthy(c.a.version)), is_version(c.a.version)))],
    ensures=[
        ("stores", lambda c: z3.And(c.returns, c.new(c.a.self, "id") == c.a.rpcid,
                                    c.new(c.a.self, "version") == V.VFloat(version_num(
                                        z3.If(V.truthy(c.a.version), c.a.version, c.old(c.a.config, "version"))))),
         ("C14",)),
    ],
    modifies=[Field(lambda c: c.a.self, "id"), Field(lambda c: c.a.self, "version")],
    props=("C14",),
)


def _request_post(c, notify=False):
    p, m, params = c.a.self, c.a.method, c.a.params
    ver = c.old(p, "version")
    rid0 = c.old(p, "id")
    r = c.ret
    n = c.gold("uuid_ctr")
    gen = z3.And(z3.Not(V.truthy(rid0)), z3.Not(V.is_numeric(rid0)))     # what the code does
    has_params = z3.Or(V.truthy(params), z3.Not(is_v2(ver)))
    newid = z3.If(supplied(rid0), rid0, V.VStr(uuid_str(n)))
    id_ok = z3.And(
        implies(supplied(rid0), z3.And(c.new(p, "id") == rid0, c.gnew("uuid_ctr") == n)),
        implies(absent_id(rid0), z3.And(c.new(p, "id") == V.VStr(uuid_str(n)), c.gnew("uuid_ctr") == n + 1)))
    if not notify:
        keys = [("id", z3.BoolVal(True)), ("method", z3.BoolVal(True)), ("params", has_params),
                ("jsonrpc", is_v2(ver))]
        idclause = z3.And(id_ok, get(r, "id") == c.new(p, "id"))
    else:
        keys = [("id", z3.Not(is_v2(ver))), ("method", z3.BoolVal(True)), ("params", has_params),
                ("jsonrpc", is_v2(ver))]
        idclause = z3.And(id_ok, implies(z3.Not(is_v2(ver)), get(r, "id") == V.VNone))
    return z3.And(V.is_dict(r), exact_keys(r, keys), idclause, get(r, "method") == m,
                  implies(has_params, get(r, "params") == z3.If(V.truthy(params), params, V.empty_list())),
                  implies(is_v2(ver), get(r, "jsonrpc") == V.S("2.0")))


for _name, _notify in (("request", False), ("notify", True)):
    Contract(
        "jsonrpclib.jsonrpc.Payload." + _name,
        requires=[("payload", lambda c: payload_inv(c, c.a.self))],
        ensures=[
            ("method_must_be_string", lambda c: implies(z3.Not(z3.Or(V.is_str(c.a.method), V.is_bytes(c.a.method))),
                                                        c.raises(ValueError)), ("C14",)),
            ("members", lambda c, _n=_notify: implies(z3.Or(V.is_str(c.a.method), V.is_bytes(c.a.method)),
                                                      z3.And(c.returns, _request_post(c, _n))), ("C14",)),
            ("version_kept", lambda c: c.new(c.a.self, "version") == c.old(c.a.self, "version"), ("C14",)),
        ],
        modifies=[Field(lambda c: c.a.self, "id"), Ghost("uuid_ctr")],
        props=("C14",),
    )


def _response_shape(c, r, result_val):
    p = c.a.self
    ver = c.old(p, "version")
    return z3.And(V.is_dict(r),
                  exact_keys(r, [("result", z3.BoolVal(True)), ("id", z3.BoolVal(True)),
                                            ("jsonrpc", is_v2(ver)), ("error", z3.Not(is_v2(ver)))]),
                  get(r, "result") == result_val, get(r, "id") == c.old(p, "id"),
                  implies(is_v2(ver), get(r, "jsonrpc") == V.S("2.0")),
                  implies(z3.Not(is_v2(ver)), get(r, "error") == V.VNone))


Contract(
    "jsonrpclib.jsonrpc.Payload.response",
    requires=[("payload", lambda c: payload_inv(c, c.a.self))],
    ensures=[("members", lambda c: z3.And(c.returns, _response_shape(c, c.ret, c.a.result)), ("C14", "C02"))],
    modifies=[],
    props=("C14",),
)


def _error_shape(c, r, rid, ver, code, message, data):
    e = get(r, "error")
    return z3.And(V.is_dict(r),
                  exact_keys(r, [("result", z3.Not(is_v2(ver))), ("id", z3.BoolVal(True)),
                                            ("jsonrpc", is_v2(ver)), ("error", z3.BoolVal(True))]),
                  get(r, "id") == rid,
                  implies(is_v2(ver), get(r, "jsonrpc") == V.S("2.0")),
                  implies(z3.Not(is_v2(ver)), get(r, "result") == V.VNone),
                  V.is_dict(e),
                  exact_keys(e, [("code", z3.BoolVal(True)), ("message", z3.BoolVal(True)),
                                            ("data", z3.Not(V.is_none(data)))]),
                  get(e, "code") == code, get(e, "message") == message,
                  implies(z3.Not(V.is_none(data)), get(e, "data") == data))


Contract(
    "jsonrpclib.jsonrpc.Payload.error",
    requires=[("payload", lambda c: payload_inv(c, c.a.self))],
    ensures=[("members", lambda c: z3.And(c.returns, _error_shape(c, c.ret, c.old(c.a.self, "id"),
                                                                  c.old(c.a.self, "version"), c.a.code, c.a.message,
                                                                  c.a.data)), ("C14", "C02"))],
    modifies=[],
    props=("C14",),
)

# --- Fault -------------------------------------------------------------------------------------------------------
Contract(
    "jsonrpclib.jsonrpc.Fault.__init__",
    kinds={"config": "obj:" + CONFIG},
    ensures=[("stores", lambda c: z3.And(c.returns, c.new(c.a.self, "faultCode") == c.a.code,
                                         c.new(c.a.self, "faultString") == c.a.message,
                                         c.new(c.a.self, "rpcid") == c.a.rpcid, c.new(c.a.self, "config") == c.a.config,
                                         c.new(c.a.self, "data") == c.a.data), ("C14", "C03"))],
    modifies=[Field(lambda c: c.a.self, f) for f in ("faultCode", "faultString", "rpcid", "config", "data")],
    props=("C14",),
)

Contract(
    "jsonrpclib.jsonrpc.Fault.error",
    ensures=[("members", lambda c: z3.And(
        c.returns, V.is_dict(c.ret), exact_keys(c.ret, [("code", True), ("message", True), ("data", True)]),
        get(c.ret, "code") == c.old(c.a.self, "faultCode"), get(c.ret, "message") == c.old(c.a.self, "faultString"),
        get(c.ret, "data") == c.old(c.a.self, "data")), ("C14",))],
    modifies=[],
    props=("C14",),
)


def fault_inv(c, f, heap="old"):
    rd = c.old if heap == "old" else c.new
    cfg = rd(f, "config")
    return z3.And(V.is_obj(cfg), C.subclass(C.cls_of(Val.ref(cfg)), _cfgmod.Config), valid_config(c, cfg, heap),
                  Val.ref(cfg) != Val.ref(f))


def _fault_dump_post(c):
    f = c.a.self
    cfg = c.old(f, "config")
    ver = z3.If(V.truthy(c.a.version), c.a.version, c.old(cfg, "version"))
    rid = z3.If(V.truthy(c.a.rpcid), c.a.rpcid, c.old(f, "rpcid"))
    return z3.And(c.new(f, "rpcid") == rid,
                  _error_shape(c, c.ret, rid, V.VFloat(version_num(ver)), c.old(f, "faultCode"),
                               c.old(f, "faultString"), c.old(f, "data")))


Contract(
    "jsonrpclib.jsonrpc.Fault.dump",
    requires=[("fault", lambda c: fault_inv(c, c.a.self)),
              ("version", lambda c: z3.Or(z3.Not(V.truthy(c.a.version)), is_version(c.a.version)))],
    ensures=[("error_object", lambda c: z3.And(c.returns, _fault_dump_post(c)), ("C14", "C02", "C03"))],
    modifies=[Field(lambda c: c.a.self, "rpcid"), Ghost("x_kind"), Ghost("x_val")],
    props=("C14",),
)

Contract(
    "jsonrpclib.jsonrpc.Fault.response",
    requires=[("fault", lambda c: fault_inv(c, c.a.self)),
              ("version", lambda c: z3.Or(z3.Not(V.truthy(c.a.version)), is_version(c.a.version)))],
    ensures=[("error_text", lambda c: implies(
        c.returns, z3.And(V.is_str(c.ret), c.ret == V.VStr(V.jdumps_of(c.gnew("last_dumped"))),
                          (lambda r: _fault_dump_shape(c, r))(c.gnew("last_dumped")))), ("C14", "C02")),
             ("only_type_error", lambda c: implies(c.raised, c.raises(TypeError)), ("C14",))],
    modifies=[Field(lambda c: c.a.self, "rpcid"), Ghost("last_dumped"), Ghost("x_kind"), Ghost("x_val")],
    props=("C14",),
)


def _fault_dump_shape(c, r):
    f = c.a.self
    cfg = c.old(f, "config")
    ver = z3.If(V.truthy(c.a.version), c.a.version, c.old(cfg, "version"))
    rid = z3.If(V.truthy(c.a.rpcid), c.a.rpcid, c.old(f, "rpcid"))
    return z3.And(c.new(f, "rpcid") == rid,
                  _error_shape(c, r, rid, V.VFloat(version_num(ver)), c.old(f, "faultCode"),
                               c.old(f, "faultString"), c.old(f, "data")))


# --- dump / dumps / load / loads -----------------------------------------------------------------------------------
def _is_fault(c, v):
    return z3.And(V.is_obj(v), C.subclass(C.cls_of(Val.ref(v)), J.Fault))


def _dump_domain(c):
    p = c.a.params
    return z3.And(valid_config(c, c.a.config),
                  z3.Or(z3.Not(V.truthy(c.a.version)), is_version(c.a.version)),
                  implies(_is_fault(c, p), Val.ref(p) >= 0),
                  z3.Or(V.is_none(c.a.is_response), V.is_bool(c.a.is_response)),
                  z3.Or(V.is_none(c.a.is_notify), V.is_bool(c.a.is_notify)))


def _eff_version(c):
    v = z3.If(V.truthy(c.a.version), c.a.version, c.old(c.a.config, "version"))
    return V.VFloat(version_num(v))


def _translated(c, params):
    """the params after the class translator (identity when use_jsonclass is off: C08)"""
    cfg = c.a.config
    env = tup(c.old(cfg, "serialize_handlers"), c.old(cfg, "serialize_method"), c.old(cfg, "ignore_attribute"),
              V.empty_list())
    return z3.If(V.truthy(c.old(cfg, "use_jsonclass")), jcd(env, params), params)


def _dump_post(c):
    memo = getattr(c, "_dump_post_memo", None)
    if memo is None:
        memo = _dump_post_build(c)
        try:
            c._dump_post_memo = memo
        except Exception:
            pass
    return memo


def _dump_post_build(c):
    p0, m, rid = c.a.params, c.a.methodname, c.a.rpcid
    isresp, isnot = V.truthy(c.a.is_response), V.truthy(c.a.is_notify)
    p = z3.If(z3.And(z3.Not(isresp), V.is_none(p0)), V.empty_list(), p0)
    m_str = z3.Or(V.is_str(m), V.is_bytes(m))
    listish = z3.Or(V.is_list(p), V.is_tuple(p), V.is_dict(p), _is_fault(c, p), z3.And(isresp, V.is_none(p)))
    ver = _eff_version(c)
    r = c.ret
    tp = _translated(c, p)
    n = c.gold("uuid_ctr")
    has_params = z3.Or(V.truthy(tp), z3.Not(is_v2(ver)))
    newid = z3.If(absent_id(rid), V.VStr(uuid_str(n)), rid)
    req_shape = lambda notify: z3.And(
        V.is_dict(r),
        exact_keys(r, [("id", z3.BoolVal(True) if not notify else z3.Not(is_v2(ver))),
                                  ("method", z3.BoolVal(True)), ("params", has_params), ("jsonrpc", is_v2(ver))]),
        get(r, "method") == m,
        implies(has_params, get(r, "params") == z3.If(V.truthy(tp), tp, V.empty_list())),
        implies(is_v2(ver), get(r, "jsonrpc") == V.S("2.0")),
        (implies(z3.Not(is_v2(ver)), get(r, "id") == V.VNone) if notify else
         z3.And(implies(supplied(rid), z3.And(get(r, "id") == rid, c.gnew("uuid_ctr") == n)),
                implies(absent_id(rid), z3.And(get(r, "id") == V.VStr(uuid_str(n)), c.gnew("uuid_ctr") == n + 1)))))
    return [
        ("rejects_scalar_params", implies(z3.And(m_str, z3.Not(listish)), c.raises(TypeError))),
        ("fault_becomes_error", implies(z3.And(_is_fault(c, p), z3.Or(z3.Not(m_str), listish)),
                                        z3.And(c.returns, _error_shape(c, r, rid, ver, c.old(p, "faultCode"),
                                                                       c.old(p, "faultString"), c.old(p, "data"))))),
        ("neither_request_nor_response", implies(z3.And(z3.Not(m_str), z3.Not(isresp), z3.Not(_is_fault(c, p))),
                                                 c.raises(ValueError))),
        ("response_needs_id", implies(z3.And(isresp, V.is_none(rid), z3.Not(_is_fault(c, p)), z3.Or(z3.Not(m_str), listish),
                                             c.returns), z3.BoolVal(False))),
        ("response_members", implies(z3.And(isresp, z3.Not(V.is_none(rid)), z3.Not(_is_fault(c, p)), z3.Or(z3.Not(m_str), listish),
                                            c.returns),
                                     z3.And(V.is_dict(r),
                                            exact_keys(r, [("result", z3.BoolVal(True)), ("id", z3.BoolVal(True)),
                                                                      ("jsonrpc", is_v2(ver)), ("error", z3.Not(is_v2(ver)))]),
                                            get(r, "result") == tp, get(r, "id") == rid,
                                            implies(is_v2(ver), get(r, "jsonrpc") == V.S("2.0")),
                                            implies(z3.Not(is_v2(ver)), get(r, "error") == V.VNone)))),
        ("request_members", implies(z3.And(m_str, listish, z3.Not(_is_fault(c, p)), z3.Not(isresp), z3.Not(isnot), c.returns),
                                    req_shape(False))),
        ("notification_members", implies(z3.And(m_str, listish, z3.Not(_is_fault(c, p)), z3.Not(isresp), isnot, c.returns),
                                         req_shape(True))),
        ("raises_only_from_translator", implies(
            z3.And(c.raised, z3.Not(c.raises(TypeError)), z3.Not(c.raises(ValueError))),
            V.truthy(c.old(c.a.config, "use_jsonclass")))),
        ("ids_generated_for_requests_only", implies(z3.Or(isresp, _is_fault(c, p), z3.Not(m_str), c.raised, supplied(rid)),
                                                    c.gnew("uuid_ctr") == n)),
        ("translator_only_when_enabled", implies(z3.Or(_is_fault(c, p), z3.Not(V.truthy(c.old(c.a.config, "use_jsonclass")))),
                                                 c.gnew("xlate_log") == c.gold("xlate_log"))),
        ("raises_exceptions_only", implies(c.raised, c.raises(Exception))),
        ("no_translation_no_failure", implies(
            z3.And(z3.Not(V.truthy(c.old(c.a.config, "use_jsonclass"))), m_str, listish, z3.Not(isresp)), c.returns)),
    ]


_DUMP_LABELS = ["rejects_scalar_params", "fault_becomes_error", "neither_request_nor_response", "response_needs_id",
                "response_members", "request_members", "notification_members", "raises_only_from_translator",
                "ids_generated_for_requests_only", "translator_only_when_enabled", "raises_exceptions_only",
                "no_translation_no_failure"]


def _dump_clause(i):
    return lambda c: _dump_post(c)[i][1]


Contract(
    "jsonrpclib.jsonrpc.dump",
    kinds={"config": "obj:" + CONFIG},
    requires=[("domain", _dump_domain)],
    ensures=[(lab, _dump_clause(i), ("C14", "C08") if "translat" in lab else ("C14",)) for i, lab in enumerate(_DUMP_LABELS)],
    modifies=[Ghost("uuid_ctr"), Ghost("xlate_log"), Ghost("x_kind"), Ghost("x_val")],
    props=("C14",),
)


# --- dumps: the text is the JSON image of what dump() builds ----------------------------------------------------------
def _dumps_as_dump_ctx(c):
    """view of a dumps() call as the dump() call it makes (argument renaming)"""
    class _A(object):
        pass
    a = _A()
    a.params, a.methodname, a.rpcid, a.version = c.a.params, c.a.methodname, c.a.rpcid, c.a.version
    a.is_response, a.is_notify, a.config = c.a.methodresponse, c.a.notify, c.a.config
    import copy as _copy
    c2 = _copy.copy(c)
    c2.a = a
    return c2


T.declare_ghost("dumped_flag", z3.BoolSort())

Contract(
    "jsonrpclib.jsonrpc.dumps",
    kinds={"config": "obj:" + CONFIG},
    requires=[("domain", lambda c: _dump_domain(_dumps_as_dump_ctx(c)))],
    ensures=[("text_is_json_of_message", lambda c: implies(
        c.returns, z3.And(V.is_str(c.ret), c.ret == V.VStr(V.jdumps_of(c.gnew("last_dumped"))))), ("C14", "C01"))] +
            [("message:" + lab, (lambda i: lambda c: implies(c.returns, (lambda c2: _dump_post(c2)[i][1])(
                _with_ret(_dumps_as_dump_ctx(c), c.gnew("last_dumped")))))(i), ("C14",))
             for i, lab in enumerate(_DUMP_LABELS) if lab in ("response_members", "request_members", "notification_members",
                                                               "fault_becomes_error")] +
            [("ghost:" + lab, (lambda i: lambda c: (lambda c2: _dump_post(c2)[i][1])(
                _ghost_view(_dumps_as_dump_ctx(c), c)))(i), ("C14",))
             for i, lab in enumerate(_DUMP_LABELS) if lab in ("ids_generated_for_requests_only", "translator_only_when_enabled")] +
            [("raises_exceptions_only", lambda c: implies(c.raised, c.raises(Exception)), ("C14", "C02"))] +
            [("fault_only_type_error", lambda c: implies(z3.And(c.raised, _is_fault(c, c.a.params)), c.raises(TypeError)), ("C14",))] +
            [("rejections_propagate", lambda c: implies(_dumps_rejects(c), c.raised), ("C14",))],
    modifies=[Ghost("uuid_ctr"), Ghost("xlate_log"), Ghost("last_dumped"), Ghost("x_kind"), Ghost("x_val")],
    props=("C14",),
)


def _ghost_view(c2, c):
    # the ghost clauses of dump() do not mention the result; `raised` is that of dumps (a raise in dump is a raise
    # in dumps; a TypeError of the JSON backend comes after dump returned, when the counters are final)
    c2.ret = c.gnew("last_dumped")
    c2.raised = z3.And(c.raised, z3.BoolVal(False))
    return c2


def _with_ret(c2, r):
    c2.ret = r
    c2.raised = z3.BoolVal(False)
    return c2


def _dumps_rejects(c):
    """argument combinations for which no message may be emitted"""
    c2 = _dumps_as_dump_ctx(c)
    p0, m, rid = c2.a.params, c2.a.methodname, c2.a.rpcid
    isresp = V.truthy(c2.a.is_response)
    p = z3.If(z3.And(z3.Not(isresp), V.is_none(p0)), V.empty_list(), p0)
    m_str = z3.Or(V.is_str(m), V.is_bytes(m))
    listish = z3.Or(V.is_list(p), V.is_tuple(p), V.is_dict(p), _is_fault(c2, p), z3.And(isresp, V.is_none(p)))
    return z3.Or(z3.And(m_str, z3.Not(listish)),
                 z3.And(z3.Not(m_str), z3.Not(isresp), z3.Not(_is_fault(c2, p))),
                 z3.And(isresp, V.is_none(rid), z3.Not(_is_fault(c2, p)), z3.Or(z3.Not(m_str), listish)))


# --- load / loads ---------------------------------------------------------------------------------------------------
Contract(
    "jsonrpclib.jsonrpc.load",
    kinds={"config": "obj:" + CONFIG},
    requires=[("config", lambda c: valid_config(c, c.a.config))],
    ensures=[
        ("none_is_none", lambda c: implies(V.is_none(c.a.data), z3.And(c.returns, V.is_none(c.ret))), ("C14",)),
        ("inert_when_off", lambda c: implies(z3.Not(V.truthy(c.old(c.a.config, "use_jsonclass"))),
                                             z3.And(c.returns, c.ret == c.a.data,
                                                    c.gnew("imports") == c.gold("imports"),
                                                    c.gnew("constructs") == c.gold("constructs"))), ("C08", "C14")),
        ("raises_exceptions_only", lambda c: implies(c.raised, c.raises(Exception)), ("C02", "C08")),
        ("translated_when_on", lambda c: implies(z3.And(V.truthy(c.old(c.a.config, "use_jsonclass")), z3.Not(V.is_none(c.a.data)),
                                                        c.returns),
                                                 c.ret == jcl(eff_classes(c.old(c.a.config, "classes")), c.a.data)), ("C14", "C07")),
    ],
    modifies=[Ghost("imports"), Ghost("constructs"), Ghost("xlate_log"), Ghost("x_kind"), Ghost("x_val"),
              Ghost("checked_name"), Ghost("bean_attrs")],
    props=("C14", "C08"),
)

Contract(
    "jsonrpclib.jsonrpc.loads",
    kinds={"config": "obj:" + CONFIG, "data": "str"},
    requires=[("config", lambda c: valid_config(c, c.a.config))],
    ensures=[
        ("empty_is_none", lambda c: implies(c.a.data == V.S(""), z3.And(
            c.returns, V.is_none(c.ret), c.gnew("imports") == c.gold("imports"),
            c.gnew("constructs") == c.gold("constructs"), c.gnew("xlate_log") == c.gold("xlate_log"))), ("C14", "C08")),
        ("invalid_json_raises", lambda c: implies(z3.And(c.a.data != V.S(""), z3.Not(json_text(Val.s(c.a.data)))),
                                                  z3.And(c.raises(ValueError), c.gnew("imports") == c.gold("imports"),
                                                         c.gnew("constructs") == c.gold("constructs"),
                                                         c.gnew("xlate_log") == c.gold("xlate_log"))), ("C14", "C05")),
        ("inert_when_off", lambda c: implies(z3.And(c.a.data != V.S(""), json_text(Val.s(c.a.data)),
                                                    z3.Not(V.truthy(c.old(c.a.config, "use_jsonclass")))),
                                             z3.And(c.returns, c.ret == jloads_of(Val.s(c.a.data)),
                                                    c.gnew("imports") == c.gold("imports"),
                                                    c.gnew("constructs") == c.gold("constructs"))), ("C08", "C14")),
        ("raises_exceptions_only", lambda c: implies(c.raised, c.raises(Exception)), ("C02", "C05", "C08")),
        ("translated_when_on", lambda c: implies(z3.And(c.a.data != V.S(""), json_text(Val.s(c.a.data)),
                                                        V.truthy(c.old(c.a.config, "use_jsonclass")), c.returns),
                                                 z3.If(V.is_none(jloads_of(Val.s(c.a.data))), V.is_none(c.ret),
                                                       c.ret == jcl(eff_classes(c.old(c.a.config, "classes")),
                                                                    jloads_of(Val.s(c.a.data))))), ("C14", "C07")),
    ],
    modifies=[Ghost("imports"), Ghost("constructs"), Ghost("xlate_log"), Ghost("x_kind"), Ghost("x_val"),
              Ghost("checked_name"), Ghost("bean_attrs")],
    props=("C14", "C08"),
)
