"""jsonclass.dump / jsonclass.load (C07, C08, C15, C20) and helpers."""
import z3
from pyvc import vals as V
from pyvc.vals import Val
from pyvc import ops
from .base import *
from .jsonrpc_msg import jcd, jcl, eff_classes
import jsonrpclib.jsonclass as JC
import jsonrpclib.config as _cfgmod


def dump_env(handlers, sm, ia, ignore):
    """the part of the configuration the image of jsonclass.dump depends on"""
    return tup(handlers, sm, ia, ignore)


def eff(arg, default):
    return z3.If(V.truthy(arg), arg, default)


def dump_env_of(c):
    cfg = c.a.config
    return dump_env(c.old(cfg, "serialize_handlers"), eff(c.a.serialize_method, c.old(cfg, "serialize_method")),
                    eff(c.a.ignore_attribute, c.old(cfg, "ignore_attribute")), eff(c.a.ignore, V.empty_list()))


def type_key(v):
    return V.KO(ops.type_id(v, C.cls_of))


def handled(handlers, v):
    """a non-None handler is registered for exactly type(v)"""
    k = type_key(v)
    return z3.And(V.dict_has(handlers, k), z3.Not(V.is_none(V.dict_get(handlers, k))))


def plain_shape(obj, ret):
    """shape facts of the image of an unhandled builtin value"""
    return z3.And(
        implies(V.is_primitive(obj), ret == obj),
        implies(V.is_seq(obj), z3.And(V.is_list(ret), Val.llen(ret) == V.seq_len(obj))),
        implies(V.is_dict(obj), z3.And(V.is_dict(ret), Val.dlen(ret) == Val.dlen(obj), Val.dhas(ret) == Val.dhas(obj))))


Contract(
    "jsonrpclib.jsonclass.dump",
    kinds={"config": "obj:" + CONFIG},
    requires=[("config", lambda c: valid_config(c, c.a.config))],
    ensures=[
        ("image", lambda c: implies(c.returns, c.ret == jcd(dump_env_of(c), c.a.obj)), ("C15", "C20", "C07")),
        ("raises_exceptions_only", lambda c: implies(c.raised, c.raises(Exception)), ("C15", "C02")),
        ("builtin_shape", lambda c: implies(z3.And(c.returns, z3.Not(handled(c.old(c.a.config, "serialize_handlers"), c.a.obj))),
                                            plain_shape(c.a.obj, c.ret)), ("C15",)),
    ],
    modifies=[Ghost("xlate_log")],
    props=("C15", "C20", "C07"),
)


Contract(
    "jsonrpclib.jsonclass.load",
    kinds={},
    requires=[],
    ensures=[
        ("image", lambda c: implies(c.returns, c.ret == jcl(eff_classes(c.a.classes), c.a.obj)),
         ("C15", "C07")),
        ("raises_exceptions_only", lambda c: implies(c.raised, c.raises(Exception)), ("C08", "C02")),
    ],
    modifies=[Ghost("imports"), Ghost("constructs"), Ghost("xlate_log"), Param("obj")],
    props=("C15", "C07", "C08"),
)
