"""jsonclass.dump / jsonclass.load (C07, C08, C15, C20) and helpers."""
import z3
from pyvc import vals as V
from pyvc.vals import Val
from pyvc import ops
from .base import *
from .jsonrpc_msg import jcd, jcl, eff_classes
from .base import resub, charclass_regex
import jsonrpclib.jsonclass as JC
import jsonrpclib.config as _cfgmod


def dump_env(handlers, sm, ia, ignore):
    """the part of the configuration the image of jsonclass.dump depends on"""
    return tup(handlers, sm, ia, ignore)


def eff(arg, default):
    return z3.If(V.truthy(arg), arg, default)


def dump_env_of(c):
    cfg = c.a.config
    return dump_env(c.old(cfg, "serialize_handlers"), eff(c.a.serialize_method, c.old(cfg, "serialize_method")),
                    eff(c.a.ignore_attribute, c.old(cfg, "ignore_attribute")), eff(c.a.ignore, V.empty_list()))


def type_key(v):
    return V.KO(ops.type_id(v, C.cls_of))


def handled(handlers, v):
    """a non-None handler is registered for exactly type(v)"""
    k = type_key(v)
    return z3.And(V.dict_has(handlers, k), z3.Not(V.is_none(V.dict_get(handlers, k))))


def plain_shape(obj, ret):
    """shape facts of the image of an unhandled builtin value"""
    return z3.And(
        implies(V.is_primitive(obj), ret == obj),
        implies(V.is_seq(obj), z3.And(V.is_list(ret), Val.llen(ret) == V.seq_len(obj))),
        implies(V.is_dict(obj), z3.And(V.is_dict(ret), Val.dlen(ret) == Val.dlen(obj), Val.dhas(ret) == Val.dhas(obj))))


is_field = z3.Function("is_field", Val, z3.StringSort(), z3.BoolSort())     # name is in __dict__ or an inherited __slots__
fieldset = z3.Function("fieldset", Val, Val)                                  # the set _find_fields returns

def fieldset_facts(obj):
    """what a caller may assume about fieldset(obj): a fresh mutable set of str names"""
    s_ = fieldset(obj)
    return z3.And(V.is_set(s_), z3.Not(Val.frozen(s_)), Val.slen(s_) >= 0)


Contract(
    "jsonrpclib.jsonclass._find_fields",
    ensures=[("field_names", lambda c: z3.And(c.returns, c.ret == fieldset(c.a.obj), fieldset_facts(c.a.obj)),
              ("C07", "C20"))],
    modifies=[],
    props=("C07",),
)
REGISTRY_JC = __import__("pyvc.contracts", fromlist=["REGISTRY"]).REGISTRY
REGISTRY_JC["jsonrpclib.jsonclass._find_fields"].assumed = (
    "assumed, body not verified: class-level reflection (__dict__, __slots__, __bases__) is outside the accepted "
    "subset; exercised by the bounded stand-in on generated class shapes")


def _senv(c):
    return dump_env_of(c)


def _handlers(c):
    return c.old(c.a.config, "serialize_handlers")


def _log_unchanged(c):
    return c.gnew("xlate_log") == c.gold("xlate_log")


def _appended(lst, item):
    return V.VList(Val.llen(lst) + 1, z3.Store(Val.lat(lst), Val.llen(lst), item))


FJ = z3.Int("FREE!j")
FK = z3.Const("FREE!k", V.Key)
FR = z3.Int("FREE!r")


def _dump_seq_clause(c):
    o, r = c.a.obj, c.ret
    return implies(z3.And(z3.Not(handled(_handlers(c), o)), V.is_seq(o), c.returns),
                   z3.And(V.is_list(r), Val.llen(r) == V.seq_len(o),
                          z3.Implies(z3.And(FJ >= 0, FJ < Val.llen(r)),
                                     z3.Select(Val.lat(r), FJ) == jcd(_senv(c), z3.Select(V.seq_at(o), FJ)))))


def _dump_dict_clause(c):
    o, r = c.a.obj, c.ret
    return implies(z3.And(z3.Not(handled(_handlers(c), o)), V.is_dict(o), c.returns),
                   z3.And(V.is_dict(r), Val.dlen(r) == Val.dlen(o), Val.dhas(r) == Val.dhas(o),
                          z3.Implies(V.dict_has(o, FK),
                                     z3.Select(Val.dget(r), FK) == jcd(_senv(c), z3.Select(Val.dget(o), FK)))))


Contract(
    "jsonrpclib.jsonclass.dump",
    kinds={"config": "obj:" + CONFIG},
    requires=[("config", lambda c: valid_config(c, c.a.config)),
              ("ignore-is-a-list", lambda c: z3.Or(V.is_none(c.a.ignore), V.is_list(c.a.ignore))),
              ("names-are-strings", lambda c: z3.And(z3.Or(V.is_none(c.a.serialize_method), V.is_str(c.a.serialize_method)),
                                                     z3.Or(V.is_none(c.a.ignore_attribute), V.is_str(c.a.ignore_attribute))))],
    ensures=[
        # trusted determinism: jc_dump names the value dump returns for (configuration, object)
        ("image", lambda c: implies(c.returns, c.ret == jcd(_senv(c), c.a.obj)), ("assumed",)),
        ("raises_exceptions_only", lambda c: implies(c.raised, c.raises(Exception)), ("C15", "C02")),
        ("handler_precedence", lambda c: implies(handled(_handlers(c), c.a.obj), z3.And(
            c.gnew("xlate_log") == _appended(c.gold("xlate_log"), tup(
                V.dict_get(_handlers(c), type_key(c.a.obj)),
                tup(c.a.obj, eff(c.a.serialize_method, c.old(c.a.config, "serialize_method")),
                    eff(c.a.ignore_attribute, c.old(c.a.config, "ignore_attribute")),
                    eff(c.a.ignore, V.empty_list()), c.a.config), V.empty_dict())),
            implies(c.returns, z3.And(c.gnew("x_kind") == 0, c.ret == c.gnew("x_val"))),
            implies(c.raised, z3.And(c.gnew("x_kind") == 1, c.exc == c.gnew("x_val"))))), ("C20",)),
        ("primitive_identity", lambda c: implies(z3.And(z3.Not(handled(_handlers(c), c.a.obj)), V.is_primitive(c.a.obj)),
                                                 z3.And(c.returns, c.ret == c.a.obj, _log_unchanged(c))), ("C15",)),
        ("sequence_elementwise", _dump_seq_clause, ("C15", "C20", "C07")),
        ("dict_valuewise", _dump_dict_clause, ("C15", "C20", "C07")),
        ("builtin_shape", lambda c: implies(z3.And(c.returns, z3.Not(handled(_handlers(c), c.a.obj))),
                                            plain_shape(c.a.obj, c.ret)), ("C15", "C14")),
        ("bean_descriptor", lambda c: implies(
            z3.And(c.returns, z3.Not(handled(_handlers(c), c.a.obj)), z3.Not(V.is_primitive(c.a.obj)),
                   z3.Not(V.is_seq(c.a.obj)), z3.Not(V.is_dict(c.a.obj))),
            z3.And(V.is_dict(c.ret), has(c.ret, "__jsonclass__"))), ("C07",)),
    ],
    modifies=[Ghost("xlate_log"), Ghost("x_kind"), Ghost("x_val")],
    props=("C15", "C20", "C07"),
)


def valid_name(s_):
    """C08: non-empty and made only of ASCII letters, digits, underscore and dot"""
    ok = z3.Union(z3.Range("a", "z"), z3.Range("A", "Z"), z3.Range("0", "9"), z3.Re("_"), z3.Re("."))
    return z3.And(z3.Length(s_) > 0, z3.InRe(s_, z3.Star(ok)))


def _desc(c):
    return get(c.a.obj, "__jsonclass__")


def _desc_name(c):
    return z3.Select(Val.lat(_desc(c)), 0)


def _is_descriptor(c):
    return z3.And(V.is_dict(c.a.obj), has(c.a.obj, "__jsonclass__"))


def _wellformed_desc(c):
    d = _desc(c)
    return z3.And(V.is_list(d), Val.llen(d) >= 2, V.is_str(_desc_name(c)))


def _nothing_loaded(c):
    return z3.And(c.gnew("imports") == c.gold("imports"), c.gnew("constructs") == c.gold("constructs"),
                  c.gnew("xlate_log") == c.gold("xlate_log"))


def _lenv(c):
    return eff_classes(c.a.classes)


def _load_seq_clause(c):
    o, r = c.a.obj, c.ret
    return implies(z3.And(V.is_seq(o), c.returns),
                   z3.And(V.is_list(r), Val.llen(r) == V.seq_len(o),
                          z3.Implies(z3.And(FJ >= 0, FJ < Val.llen(r)),
                                     z3.Select(Val.lat(r), FJ) == jcl(_lenv(c), z3.Select(V.seq_at(o), FJ)))))


def _load_dict_clause(c):
    o, r = c.a.obj, c.ret
    return implies(z3.And(V.is_dict(o), z3.Not(has(o, "__jsonclass__")), c.returns),
                   z3.And(V.is_dict(r), Val.dlen(r) == Val.dlen(o), Val.dhas(r) == Val.dhas(o),
                          z3.Implies(V.dict_has(o, FK),
                                     z3.Select(Val.dget(r), FK) == jcl(_lenv(c), z3.Select(Val.dget(o), FK)))))


Contract(
    "jsonrpclib.jsonclass.load",
    kinds={},
    requires=[("classes", lambda c: z3.Or(V.is_none(c.a.classes), V.is_dict(c.a.classes)))],
    ensures=[
        # trusted determinism: jc_load names the value load returns for (class table, object)
        ("image", lambda c: implies(c.returns, c.ret == jcl(_lenv(c), c.a.obj)), ("assumed",)),
        ("raises_exceptions_only", lambda c: implies(c.raised, c.raises(Exception)), ("C08", "C02")),
        ("primitive_identity", lambda c: implies(V.is_primitive(c.a.obj),
                                                 z3.And(c.returns, c.ret == c.a.obj, _nothing_loaded(c))), ("C15",)),
        ("sequence_elementwise", _load_seq_clause, ("C15", "C07")),
        ("dict_valuewise", _load_dict_clause, ("C15", "C07")),
        # C08, regular-expression free part: whatever is imported or constructed, the name that was handed to the
        # character filter came back unchanged and non-empty; a well-formed descriptor whose name fails that test
        # is rejected with TranslationError.  That "unchanged by the filter" means "only [A-Za-z0-9_.]" is the
        # lemma below, proved once from the real INVALID_MODULE_CHARS constant.
        ("nothing_loaded_unless_name_passed_the_filter", lambda c: implies(
            z3.And(z3.Not(_nothing_loaded(c)), _is_descriptor(c), V.is_list(_desc(c))),
            z3.And(V.is_str(_desc_name(c)), z3.Length(Val.s(_desc_name(c))) > 0,
                   resub(Val.s(_desc_name(c))) == Val.s(_desc_name(c)))), ("C08",)),
        ("plain_values_load_nothing_themselves", lambda c: implies(
            z3.And(z3.Not(_is_descriptor(c)), V.is_primitive(c.a.obj)), _nothing_loaded(c)), ("C08",)),
        ("filtered_or_empty_name_is_a_translation_error", lambda c: implies(
            z3.And(_is_descriptor(c), _wellformed_desc(c),
                   z3.Or(z3.Length(Val.s(_desc_name(c))) == 0, resub(Val.s(_desc_name(c))) != Val.s(_desc_name(c)))),
            z3.And(c.raises_exactly(JC.TranslationError), _nothing_loaded(c))), ("C08",)),
        ("bean_fields_loaded_with_the_same_class_table", lambda c: implies(
            z3.And(c.returns, _is_descriptor(c), V.is_obj(c.ret), V.Key.is_KS(FK), V.dict_has(c.a.obj, FK),
                   FK != ks("__jsonclass__")),
            z3.Select(z3.Select(c.gnew("bean_attrs"), Val.ref(c.ret)), V.Key.ks(FK)) ==
            jcl(_lenv(c), z3.Select(Val.dget(c.a.obj), FK))), ("C07",)),
        ("beans_of_the_caller_untouched", lambda c: implies(
            c.preexisting(FR), z3.Select(c.gnew("bean_attrs"), FR) == z3.Select(c.gold("bean_attrs"), FR)), ("C07",)),
        ("argument_unchanged", lambda c: c.after("obj") == c.a.obj, ("C15",)),
    ],
    modifies=[Ghost("imports"), Ghost("constructs"), Ghost("xlate_log"), Ghost("x_kind"), Ghost("x_val"),
              Ghost("checked_name"), Ghost("bean_attrs")],
    loops={0: LoopSpec(lambda L: z3.And(
        z3.Implies(z3.And(z3.Select(L.done, FK), V.Key.is_KS(FK)),
                   z3.Select(z3.Select(L.ghost("bean_attrs"), Val.ref(L.v("new_obj"))), V.Key.ks(FK)) ==
                   jcl(eff_classes(L.v("classes")), z3.Select(Val.dget(L.v("obj")), FK))),
        z3.Implies(FR < L.entry.aptr, z3.Implies(FR != Val.ref(L.v("new_obj")),
                   z3.Select(L.ghost("bean_attrs"), FR) == z3.Select(L.ghost0("bean_attrs"), FR)))), "fields-set")},
    props=("C15", "C07", "C08"),
)


def _name_filter_lemma():
    """for every string s: if the filter built from the real INVALID_MODULE_CHARS leaves s unchanged then s consists
    only of ASCII letters, digits, underscore and dot (and conversely)"""
    s_ = z3.String("lemma_s")
    cls = charclass_regex(JC.INVALID_MODULE_CHARS)
    anyc = z3.Star(z3.AllChar(z3.ReSort(z3.StringSort())))
    has_bad = z3.InRe(s_, z3.Concat(anyc, cls, anyc))
    ok = z3.Union(z3.Range("a", "z"), z3.Range("A", "Z"), z3.Range("0", "9"), z3.Re("_"), z3.Re("."))
    return [], z3.Not(has_bad) == z3.InRe(s_, z3.Star(ok))


REGISTRY_JC["jsonrpclib.jsonclass.load"].lemmas = [("name_filter_alphabet", _name_filter_lemma, ("C08",))]

