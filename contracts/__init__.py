"""Sidecar contracts on the real functions of /repo/jsonrpclib (no edit of the repository)."""
MODULES = ["jsonrpc_c06", "jsonrpc_msg", "jsonclass_c", "server", "transport", "threadpool", "client_calls"]
