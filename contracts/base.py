"""Shared set-up for the sidecar contracts: the trusted table, static field knowledge, spec helpers."""
import z3
from pyvc import vals as V
from pyvc.vals import Val
from pyvc import classes as C
from pyvc import trusted as T
from pyvc.contracts import Contract, Field, Param, Ghost, LoopSpec, Fresh
from pyvc.jsonish import jsonv, json_tags

TABLE = T.Table()
FIELDS = T.Fields()

sv = z3.StringVal


def implies(a, b):
    return z3.Implies(a, b)


def tup(*items):
    return V.mk_tuple(list(items))


def ks(name):
    return V.KS(sv(name))


def has(d, name):
    return V.has(d, name)


def get(d, name):
    return V.get(d, name)


def getdef(d, name, default):
    """d.get(name, default) for a dict d"""
    return z3.If(V.dict_has(d, ks(name)), V.get(d, name), default)


# ---------------------------------------------------------------------------------------------------------
# small-scope corpora for the bounded stand-ins
SCALARS = [None, True, False, 0, 1, -1, 7, 0.0, 1.5, -2.5, "", "x", "code", "id", "é中"]


def json_values(depth=1):
    out = list(SCALARS)
    if depth > 0:
        sub = [None, 0, "a", [], {}]
        out += [[], [1], ["code"], [None, "x"], {}, {"a": 1}, {"code": 1}, {"a": [1, {"b": None}]}]
        if depth > 1:
            out += [[v] for v in sub] + [{"k": v} for v in sub]
    return out


# ---------------------------------------------------------------------------------------------------------
# trusted externals (DESIGN section 3).  Each handler's docstring is the assumed contract and ends up in
# the evidence `trusted_base` when the handler is exercised.
import jsonrpclib.config as _cfgmod
from pyvc.symexec import ALLOC0, Meta
from pyvc import ops as _ops

DEFAULT_REF = z3.Int("DEFAULT_CONFIG_REF")
CONFIG = "jsonrpclib.config.Config"

T.declare_ghost("uuid_ctr", z3.IntSort())
T.declare_ghost("call_log", Val)
T.declare_ghost("xlate_log", Val)          # calls made by the class translator (handlers, _serialize, constructors)
T.declare_ghost("imports", Val)
T.declare_ghost("constructs", Val)
T.declare_ghost("wire", Val)
T.declare_ghost("last_dumped", Val)

uuid_str = z3.Function("uuid_str", z3.IntSort(), z3.StringSort())
jloads_of = z3.Function("jloads_of", z3.StringSort(), Val)
json_text = z3.Function("json_text", z3.StringSort(), z3.BoolSort())     # the text is valid JSON


def default_config(ex=None, d=None):
    v = V.VObj(DEFAULT_REF)
    return v


TABLE.default_objects[id(_cfgmod.DEFAULT)] = default_config


def _setup_default(st):
    """facts about the shared default configuration object"""
    st.assume(z3.And(DEFAULT_REF >= 0, DEFAULT_REF < ALLOC0))
    st.assume(C.cls_of(DEFAULT_REF) == z3.IntVal(C.cid(_cfgmod.Config)))
    st.settype(V.VObj(DEFAULT_REF), _cfgmod.Config)
    # domain assumption: the shared default configuration holds valid values when the call starts
    rd = lambda f: st.read(DEFAULT_REF, f)
    st.assume(z3.And(z3.Or(rd("version") == V.VFloat(z3.RealVal(1)), rd("version") == V.VFloat(z3.RealVal(2)),
                           rd("version") == V.I(1), rd("version") == V.I(2)),
                     V.is_bool(rd("use_jsonclass")), V.is_str(rd("content_type")),
                     V.is_str(rd("user_agent")), V.is_str(rd("serialize_method")), V.is_str(rd("ignore_attribute")),
                     V.is_dict(rd("classes")), V.is_dict(rd("serialize_handlers"))))


_orig_default = TABLE.default_object


def _default_object(ex, d):
    if d is _cfgmod.DEFAULT:
        return V.VObj(DEFAULT_REF)
    return Meta(d)


TABLE.default_object = _default_object


@TABLE.register("uuid.uuid4")
def _uuid4(ex, st, args, kwargs, text):
    """uuid.uuid4(): str() of the result is non-empty and distinct from every earlier one (ghost uuid_ctr)"""
    import uuid
    st = st.copy()
    n = TABLE.ghost(st, "uuid_ctr")
    u = st.alloc(uuid.UUID)
    st.assume(V.str_of(u) == uuid_str(n))
    st.assume(z3.Length(uuid_str(n)) > 0)
    st.ghost["uuid_ctr"] = n + 1
    return [(st, ("val", u))]


def _noop(ex, st, args, kwargs, text):
    """logging: evaluates its arguments, has no other effect, does not raise"""
    return [(st, ("val", V.VNone))]


for _lvl in ("debug", "info", "warning", "error", "exception", "critical", "log"):
    TABLE.register("logging.Logger." + _lvl, _noop)


def _jdumps(ex, st, args, kwargs, text):
    """json.dumps(v): total on JSON-representable values (returns jdumps_of(v), ASCII), TypeError otherwise;
    records the serialised value in ghost last_dumped"""
    v = ex.lift(args[0])
    alts = [(V.jdumps_ok(v), ("val", V.VStr(V.jdumps_of(v)))), (z3.Not(V.jdumps_ok(v)), ("raise", TypeError))]
    res = ex.apply_op(st, alts, "jdumps")
    out = []
    for s, oc in res:
        if oc[0] == "val":
            s = s.copy()
            s.ghost["last_dumped"] = v
            s.assume(z3.Length(V.jdumps_of(v)) > 0)
        out.append((s, oc))
    return out


TABLE.register("jsonrpclib.jsonlib.JsonHandler.get_methods.<locals>.dumps_py3", _jdumps)
TABLE.register("json.dumps", _jdumps)


@TABLE.register("json.loads")
def _jloads(ex, st, args, kwargs, text):
    """json.loads(s): for a str that is valid JSON returns jloads_of(s), built only from
    None/bool/int/float/str/list/dict-with-str-keys; ValueError for any other str; TypeError for a non-str"""
    v = ex.lift(args[0])
    s_ = Val.s(v)
    r = jloads_of(s_)
    alts = [(z3.And(V.is_str(v), json_text(s_)), ("val", r)),
            (z3.And(V.is_str(v), z3.Not(json_text(s_))), ("raise", ValueError)),
            (z3.Not(z3.Or(V.is_str(v), V.is_bytes(v))), ("raise", TypeError)),
            (V.is_bytes(v), ("unsupported", "json.loads(bytes)"))]
    res = ex.apply_op(st, alts, "jloads")
    for s2, oc in res:
        if oc[0] == "val":
            s2.pc.append(z3.And(jsonv(r), json_tags(r)))
    return res


# static field knowledge -----------------------------------------------------------------------------------
for _cls in ("jsonrpclib.jsonrpc.Fault",):
    FIELDS.declare(_cls, "config", type=CONFIG)
FIELDS.declare("jsonrpclib.SimpleJSONRPCServer.SimpleJSONRPCDispatcher", "json_config", type=CONFIG)
FIELDS.declare("jsonrpclib.jsonrpc.TransportMixIn", "_config", type=CONFIG)
FIELDS.declare("jsonrpclib.jsonrpc.TransportMixIn", "readonly_headers", const=True)
FIELDS.declare("jsonrpclib.jsonrpc.TransportMixIn", "_extra_headers", maybe_missing=True)
FIELDS.declare("jsonrpclib.jsonrpc.ServerProxy", "_config", type=CONFIG)
FIELDS.declare("jsonrpclib.jsonrpc.MultiCall", "_config", type=CONFIG)
FIELDS.declare("jsonrpclib.jsonrpc.MultiCallMethod", "_config", type=CONFIG)
FIELDS.declare("jsonrpclib.jsonrpc.MultiCallNotify", "_config", type=CONFIG)


def is_version(v):
    """what Config.version / a version argument may be (C14 quantifier): 1.0, 2.0, 1, 2, '1.0', '2.0'"""
    return z3.Or(v == V.VFloat(z3.RealVal(1)), v == V.VFloat(z3.RealVal(2)), v == V.I(1), v == V.I(2),
                 v == V.S("1.0"), v == V.S("2.0"))


def version_num(v):
    """float(v) for a valid version"""
    return z3.If(V.is_str(v), V.float_of_str(Val.s(v)), V.num(v))


def is_config_version(v):
    """Config.version: numeric (the server compares it with `>= 2`)"""
    return z3.Or(v == V.VFloat(z3.RealVal(1)), v == V.VFloat(z3.RealVal(2)), v == V.I(1), v == V.I(2))


def valid_config(c, cfg, heap="old"):
    rd = c.old if heap == "old" else c.new
    return z3.And(is_config_version(rd(cfg, "version")), V.is_bool(rd(cfg, "use_jsonclass")),
                  V.is_str(rd(cfg, "content_type")), V.is_str(rd(cfg, "user_agent")),
                  V.is_str(rd(cfg, "serialize_method")), V.is_str(rd(cfg, "ignore_attribute")),
                  V.is_dict(rd(cfg, "classes")), V.is_dict(rd(cfg, "serialize_handlers")))


def keyset(*names):
    a = V.EMPTY_HAS
    for n in names:
        a = z3.Store(a, ks(n), True)
    return a


def keyset_if(pairs):
    """pairs: list of (name, condition)"""
    a = V.EMPTY_HAS
    for n, cond in pairs:
        a = z3.Store(a, ks(n), cond)
    return a


TABLE.entry_setup = _setup_default

TABLE.global_objects = [(DEFAULT_REF, _cfgmod.DEFAULT)]


# ---------------------------------------------------------------------------------------------------------
# dynamic attribute access, tracebacks, dotted-name resolution
has_attr = z3.Function("has_attr", Val, z3.StringSort(), z3.BoolSort())      # hasattr(obj, name) for opaque objects
attr_of = z3.Function("attr_of", Val, z3.StringSort(), Val)                  # getattr(obj, name) for opaque objects
resolvable = z3.Function("resolvable", Val, z3.StringSort(), z3.BoolSort())  # dotted resolution succeeds
resolved = z3.Function("resolved", Val, z3.StringSort(), Val)
opaque_str = z3.Function("opaque_str", z3.StringSort(), z3.StringSort(), z3.StringSort())   # (method name, s) -> s'
opaque_lines = z3.Function("opaque_lines", z3.StringSort(), Val)


def private_segment(m):
    """some '.'-separated segment of m starts with '_'"""
    return z3.Or(z3.PrefixOf(sv("_"), m), z3.Contains(m, sv("._")))


def _getattr_dyn(ex, st, args, text):
    """getattr(obj, name[, default]) on an instance the verifier knows nothing about: AttributeError unless
    has_attr(obj, name); the value is attr_of(obj, name) (opaque); invokes nothing"""
    from pyvc.symexec import BoundMeth
    obj, name = ex.lift(args[0]), ex.lift(args[1])
    pycls = st.typeof(obj) if z3.is_expr(obj) else None
    lit = None
    if z3.is_expr(name):
        nm = z3.simplify(Val.s(name))
        if z3.is_string_value(nm):
            lit = nm.as_string()
    if pycls is not None and lit is not None:
        res = ex.getattr_(st, obj, lit)
        if len(args) > 2:
            out = []
            for s2, oc in res:
                if oc[0] == "raise":
                    out.extend(ex.fork(s2, [(C.subclass(C.cls_of(Val.ref(oc[1])), AttributeError), ("val", ex.lift(args[2]))),
                                            (z3.Not(C.subclass(C.cls_of(Val.ref(oc[1])), AttributeError)), oc)], "getattr-default"))
                else:
                    out.append((s2, oc))
            return out
        return res
    T.used("getattr on an opaque object", _getattr_dyn.__doc__.strip())
    if not z3.is_expr(obj):
        raise T.Unsupported("getattr on a meta value") if hasattr(T, "Unsupported") else Exception("getattr on meta")
    h = has_attr(obj, Val.s(name))
    val = attr_of(obj, Val.s(name))
    if len(args) > 2:
        return [(st, ("val", z3.If(h, val, ex.lift(args[2]))))]
    return ex.apply_op(st, [(h, ("val", val)), (z3.Not(h), ("raise", AttributeError))], "getattr")


TABLE.getattr_dyn = _getattr_dyn


def _hasattr(ex, st, obj, name, text):
    """hasattr(obj, name) on an opaque object: the uninterpreted has_attr(obj, name)"""
    obj, name = ex.lift(obj), ex.lift(name)
    T.used("hasattr on an opaque object", _hasattr.__doc__.strip())
    from pyvc.symexec import Meta, BoundMeth
    if isinstance(obj, (Meta, BoundMeth)):
        if isinstance(obj, BoundMeth):
            return [(st, ("val", V.B(True)))]
        nm = z3.simplify(Val.s(name))
        return [(st, ("val", V.B(hasattr(obj.py, nm.as_string()))))]
    st = st.copy()
    st.assume(z3.Implies(z3.And(V.is_fun(obj), Val.s(name) == sv("__call__")), has_attr(obj, Val.s(name))))
    return [(st, ("val", V.VBool(has_attr(obj, Val.s(name)))))]


TABLE.hasattr_ = _hasattr


@TABLE.register("xmlrpc.server.resolve_dotted_attribute")
def _resolve_dotted(ex, st, args, kwargs, text):
    """resolve_dotted_attribute(obj, name, True): AttributeError if a '.'-segment starts with '_' or is
    missing, else the attribute (assumed not None: a registered instance exposes callables); invokes nothing"""
    obj, name = ex.lift(args[0]), ex.lift(args[1])
    m = Val.s(name)
    ok = z3.And(V.is_str(name), resolvable(obj, m))
    st = st.copy()
    st.assume(z3.Implies(resolvable(obj, m), z3.And(z3.Not(private_segment(m)), z3.Not(V.is_none(resolved(obj, m))))))
    return ex.apply_op(st, [(ok, ("val", resolved(obj, m))), (z3.Not(ok), ("raise", AttributeError))], "resolve_dotted")


@TABLE.register("sys.exc_info")
def _exc_info(ex, st, args, kwargs, text):
    """sys.exc_info(): (type, value, traceback) of the exception being handled"""
    if not st.exc_stack:
        raise Exception("sys.exc_info() outside a handler")
    e = st.exc_stack[-1]
    st = st.copy()
    import types as _types
    tb = st.alloc(_types.TracebackType)
    deeper = V.fresh("tb_deeper")
    st.assume(z3.And(V.is_obj(deeper), Val.ref(deeper) >= 0))
    # tb_next is None exactly when the exception was raised in the handling frame itself (by the call instruction, for
    # an exception coming out of a call: the callee's body never ran)
    here = z3.And(raised_at_call(Val.ref(e)), exc_depth(Val.ref(e)) == z3.IntVal(getattr(ex, "inline_depth", 0)))
    st.write(Val.ref(tb), "tb_next", z3.If(here, V.VNone, deeper))
    return [(st, ("val", V.mk_tuple([V.VType(C.cls_of(Val.ref(e))), e, tb])))]


raised_at_call = z3.Function("raised_at_call", z3.IntSort(), z3.BoolSort())
# nesting of the frame whose call instruction raised, counted in helper functions executed in place (a helper's frame sits
# between the handler and the failing call: the handler then sees a non-empty tb_next)
exc_depth = z3.Function("exc_depth", z3.IntSort(), z3.IntSort())
FIELDS.declare("builtins.traceback", "tb_next")


@TABLE.register("traceback.format_exception")
def _format_exception(ex, st, args, kwargs, text):
    """traceback.format_exception(type, value, tb): a list of at least two str lines whose last one is
    '<type name>: <str(value)>\\n' (exceptions with a single-line message, no notes)"""
    from pyvc.symexec import Star
    if len(args) == 1 and isinstance(args[0], Star):
        t = args[0].val
        e = z3.Select(Val.tat(t), 1)
    else:
        e = ex.lift(args[1])
    st = st.copy()
    lines = V.fresh("tb_lines")
    n = Val.llen(lines)
    last = z3.Select(Val.lat(lines), n - 1)
    prev = z3.Select(Val.lat(lines), n - 2)
    tname = C.cname(C.cls_of(Val.ref(e)))
    st.assume(z3.And(V.is_list(lines), n >= 2, V.is_str(last), V.is_str(prev), z3.Length(Val.s(prev)) > 0,
                     Val.s(last) == z3.Concat(tname, sv(": "), V.str_of(e), sv("\n"))))
    return [(st, ("val", lines))]


def _opaque_str_method(ex, st, s_, name, args):
    """str.strip / str.splitlines: opaque (only used to format the first line of a traceback)"""
    T.used("str.%s" % name, _opaque_str_method.__doc__.strip())
    if name == "splitlines":
        r = opaque_lines(Val.s(s_))
        st = st.copy()
        st.assume(z3.And(V.is_list(r), Val.llen(r) >= z3.If(z3.Length(Val.s(s_)) > 0, 1, 0)))
        for j in range(2):
            st.assume(V.is_str(z3.Select(Val.lat(r), z3.IntVal(j))))
        alts = [(V.is_str(s_), ("val", r)), (z3.Not(V.is_str(s_)), ("raise", AttributeError))]
        return ex.apply_op(st, alts, "splitlines")
    r = V.VStr(opaque_str(sv(name), Val.s(s_)))
    alts = [(V.is_str(s_), ("val", r)), (z3.Not(V.is_str(s_)), ("raise", AttributeError))]
    return ex.apply_op(st, alts, name)


TABLE.opaque_str_method = _opaque_str_method


join_of = z3.Function("join_of", z3.StringSort(), Val, z3.StringSort())


all_bytes = z3.Function("all_bytes", Val, z3.BoolSort())     # every element of the list is a bytes object
all_str = z3.Function("all_str", Val, z3.BoolSort())


def _str_join(ex, st, sep, args):
    """sep.join(xs): for a literal list of strings the exact concatenation; otherwise the opaque join_of(sep, xs)
    with join_of(sep, []) == '' ; TypeError if an element is not a str.  b''.join(xs) / ''.join(xs): bjoin_of(xs), the
    concatenation, when all elements are of the separator's kind (all_bytes / all_str), TypeError otherwise"""
    from pyvc.trusted import LazySeq
    xs = args[0]
    if isinstance(xs, LazySeq):
        xs = xs.lst
    T.used("str.join", _str_join.__doc__.strip())
    if ex.feasible(st, V.is_bytes(sep)) or (z3.is_true(z3.simplify(Val.s(sep) == sv(""))) and not
                                             z3.is_int_value(z3.simplify(V.seq_len(z3.simplify(xs))))):
        cat = bjoin_of(xs)
        alts = [(z3.And(V.is_bytes(sep), z3.Length(Val.y(sep)) == 0, V.is_list(xs), all_bytes(xs)), ("val", V.VBytes(cat))),
                (z3.And(V.is_bytes(sep), z3.Length(Val.y(sep)) == 0, V.is_list(xs), z3.Not(all_bytes(xs))), ("raise", TypeError)),
                (z3.And(V.is_str(sep), z3.Length(Val.s(sep)) == 0, V.is_list(xs), all_str(xs)), ("val", V.VStr(cat))),
                (z3.And(V.is_str(sep), z3.Length(Val.s(sep)) == 0, V.is_list(xs), z3.Not(all_str(xs))), ("raise", TypeError)),
                (z3.Not(z3.And(z3.Or(z3.And(V.is_bytes(sep), z3.Length(Val.y(sep)) == 0),
                                     z3.And(V.is_str(sep), z3.Length(Val.s(sep)) == 0)), V.is_list(xs))),
                 ("unsupported", "join with a non-empty separator over a symbolic list"))]
        return ex.apply_op(st, alts, "join")
    sx = z3.simplify(xs)
    n = z3.simplify(V.seq_len(sx))
    if z3.is_int_value(n) and n.as_long() <= 8:
        items = [z3.simplify(z3.Select(V.seq_at(sx), z3.IntVal(j))) for j in range(n.as_long())]
        allstr = z3.And(*[V.is_str(i) for i in items]) if items else z3.BoolVal(True)
        parts = []
        for j, it in enumerate(items):
            if j:
                parts.append(Val.s(sep))
            parts.append(Val.s(it))
        res = z3.Concat(*parts) if len(parts) > 1 else (parts[0] if parts else sv(""))
        return ex.apply_op(st, [(allstr, ("val", V.VStr(res))), (z3.Not(allstr), ("raise", TypeError))], "join")
    st = st.copy()
    st.assume(z3.Implies(V.seq_len(xs) == 0, join_of(Val.s(sep), xs) == sv("")))
    return [(st, ("val", V.VStr(join_of(Val.s(sep), xs))))]


TABLE.str_join = _str_join


# ---------------------------------------------------------------------------------------------------------
# environment callables: outcome recorded in ghost state so that contracts of repository functions can
# speak about "the call that was made" (DESIGN 2.5: ghost updates are attached to trusted externals)
T.declare_ghost("env_kind", z3.IntSort())      # 0: the last environment call returned, 1: it raised
T.declare_ghost("env_val", Val)                # the returned value / the exception object
T.declare_ghost("env_calls", z3.IntSort())     # number of environment calls so far
T.declare_ghost("env_outcomes", Val)           # per environment call: (0, returned value) or (1, exception)

import jsonrpclib.jsonrpc as _J


def _env_call(ex, st, f, argv, kw, text, base=Exception):
    """a callable supplied by the environment: appends (f, args, kwargs) to ghost call_log and bumps env_calls;
    returns any value that is not a Fault instance (ghost env_kind=0, env_val=value) or raises any Exception
    (env_kind=1, env_val=exception); ghost bind_err is true only if the TypeError was raised while binding
    the arguments, i.e. before the body ran; writes no attribute of the repository's objects"""
    T.used("environment callable", _env_call.__doc__.strip())
    st = st.copy()
    TABLE.ghost_append(st, "call_log", V.mk_tuple([f, argv, kw]))
    st.ghost["env_calls"] = TABLE.ghost(st, "env_calls") + 1
    ret = V.fresh("envret")
    s_ok = st.copy()
    s_ok.sig.append("env:%s:ret" % text)
    s_ok.assume(z3.Not(z3.And(V.is_obj(ret), C.subclass(C.cls_of(Val.ref(ret)), _J.Fault))))
    s_ok.assume(z3.Implies(V.is_obj(ret), Val.ref(ret) >= 0))
    s_ok.ghost["env_kind"] = z3.IntVal(0)
    s_ok.ghost["env_val"] = ret
    s_ok.ghost["bind_err"] = z3.BoolVal(False)
    TABLE.ghost_append(s_ok, "env_outcomes", V.mk_tuple([V.I(0), ret]))
    s_ex = st.copy()
    s_ex.sig.append("env:%s:raise" % text)
    e = ex.env_exc(s_ex, base)
    be = V.fresh("bind_err", z3.BoolSort())
    s_ex.assume(z3.Implies(be, C.exact(C.cls_of(Val.ref(e)), TypeError)))
    s_ex.assume(raised_at_call(Val.ref(e)) == be)       # binding failed <=> no frame of the callee in the traceback
    s_ex.assume(exc_depth(Val.ref(e)) == z3.IntVal(getattr(ex, "inline_depth", 0)))
    s_ex.ghost["env_kind"] = z3.IntVal(1)
    s_ex.ghost["env_val"] = e
    s_ex.ghost["bind_err"] = be
    TABLE.ghost_append(s_ex, "env_outcomes", V.mk_tuple([V.I(1), e]))
    return [(s_ok, ("val", ret)), (s_ex, ("raise", e))]


TABLE.default_env_call = _env_call


bound_fn = z3.Function("bound_fn", Val, z3.StringSort(), z3.IntSort())     # identity of the bound method obj.name
_META_FUNS = {}


def _reify_bound(ex, st, bm):
    """a bound method of an instance used as a value: the opaque callable VFun(bound_fn(obj, name))"""
    return V.VFun(bound_fn(ex.lift(bm.recv), sv(bm.name)))


def _reify_meta(ex, st, m):
    p = m.py
    if isinstance(p, type):
        return V.VType(z3.IntVal(C.cid(p)))
    key = getattr(p, "__qualname__", repr(p))
    return V.VFun(z3.IntVal(-1000 - _META_FUNS.setdefault(key, len(_META_FUNS))))


TABLE.reify_bound = _reify_bound
TABLE.reify_meta = _reify_meta


def xlate_call(ex, st, f, argv, kw, text, base=Exception):
    """a callable invoked by the class translator (serialisation handler, custom serialise method, class
    constructor): appends to ghost xlate_log; returns any value or raises any Exception; writes no attribute of
    the repository's objects"""
    T.used("translator callable", xlate_call.__doc__.strip())
    st = st.copy()
    TABLE.ghost_append(st, "xlate_log", V.mk_tuple([f, argv, kw]))
    ret = V.fresh("xret")
    s_ok = st.copy()
    s_ok.sig.append("xlate:%s:ret" % text)
    s_ex = st.copy()
    s_ex.sig.append("xlate:%s:raise" % text)
    e = ex.env_exc(s_ex, base)
    return [(s_ok, ("val", ret)), (s_ex, ("raise", e))]

TABLE.xlate_call = xlate_call


def exact_keys(d, pairs):
    """d has exactly the str keys whose condition holds (key set and length)"""
    pairs = [(n, (z3.BoolVal(True) if c is True else c)) for n, c in pairs]
    return z3.And(Val.dhas(d) == keyset_if(pairs), Val.dlen(d) == z3.Sum([z3.If(c, 1, 0) for _, c in pairs]))


# translator callables: outcome in ghost state (like environment callables)
T.declare_ghost("bean_attrs", z3.ArraySort(z3.IntSort(), z3.ArraySort(z3.StringSort(), Val)))   # attributes set on beans
T.declare_ghost("checked_name", Val)       # the string last handed to the module-character filter (re.sub)
T.declare_ghost("x_kind", z3.IntSort())
T.declare_ghost("x_val", Val)


def xlate_call(ex, st, f, argv, kw, text, base=Exception):
    """a callable invoked by the class translator (serialisation handler, custom serialise method, class
    constructor): appends (f, args, kwargs) to ghost xlate_log; returns any value (ghost x_kind=0, x_val) or
    raises any Exception (x_kind=1); writes no attribute of the repository's objects"""
    T.used("translator callable", xlate_call.__doc__.strip())
    st = st.copy()
    TABLE.ghost_append(st, "xlate_log", V.mk_tuple([f, argv, kw]))
    if ex.env.fn.qualname == "load":
        TABLE.ghost_append(st, "constructs", V.mk_tuple([V.S("call"), f, argv, kw]))
    s_ok = st.copy()
    if ex.env.fn.qualname == "load":
        ret = s_ok.alloc()          # a class call returns a new instance
    else:
        ret = V.fresh("xret")
    s_ok.sig.append("xlate:%s:ret" % text)
    s_ok.ghost["x_kind"] = z3.IntVal(0)
    s_ok.ghost["x_val"] = ret
    s_ex = st.copy()
    s_ex.sig.append("xlate:%s:raise" % text)
    e = ex.env_exc(s_ex, base)
    s_ex.ghost["x_kind"] = z3.IntVal(1)
    s_ex.ghost["x_val"] = e
    return [(s_ok, ("val", ret)), (s_ex, ("raise", e))]


TABLE.xlate_call = xlate_call

module_of = z3.Function("module_of", z3.IntSort(), z3.IntSort())      # type id -> opaque id of its module object
module_name = z3.Function("fun_name", z3.IntSort(), z3.StringSort())  # shares the __name__ table of opaque callables


@TABLE.register("inspect.getmodule")
def _getmodule(ex, st, args, kwargs, text):
    """inspect.getmodule(cls): an opaque module object whose __name__ is a function of the class"""
    t = ex.lift(args[0])
    return [(st, ("val", V.VFun(module_of(Val.tid(t)))))]


# ---------------------------------------------------------------------------------------------------------
# class translator externals: re.sub, str.split, __import__, setattr
resub = z3.Function("resub", z3.StringSort(), z3.StringSort())          # re.sub(P, "", s) for the module-char pattern
split_of = z3.Function("split_of", z3.StringSort(), z3.StringSort(), Val)
import_ok = z3.Function("import_ok", z3.StringSort(), z3.IntSort())   # 0 imports, 1 ImportError, 2 another exception
module_obj = z3.Function("module_obj", z3.StringSort(), Val)


def charclass_regex(pattern):
    """z3 regex for the set of characters matched by a single bracket expression such as [^a-zA-Z0-9\\_\\.]"""
    assert pattern.startswith("[") and pattern.endswith("]"), pattern
    body = pattern[1:-1]
    neg = body.startswith("^")
    if neg:
        body = body[1:]
    items = []
    i = 0
    while i < len(body):
        ch = body[i]
        if ch == "\\":
            ch = body[i + 1]
            i += 1
        if i + 2 < len(body) and body[i + 1] == "-" and body[i + 2] != "]":
            hi = body[i + 2]
            items.append(z3.Range(ch, hi))
            i += 3
            continue
        items.append(z3.Re(ch))
        i += 1
    cls = z3.Union(*items) if len(items) > 1 else items[0]
    anychar = z3.AllChar(z3.ReSort(z3.StringSort()))
    return z3.Intersect(anychar, z3.Complement(cls)) if neg else cls


@TABLE.register("re.sub")
def _re_sub(ex, st, args, kwargs, text):
    """re.sub(P, "", s) for P a single character class: the result equals s iff no character of s matches P (the
    class is translated to a z3 regular expression from the real constant); TypeError for a non-string"""
    pat, repl, s_ = [ex.lift(a) for a in args[:3]]
    p = z3.simplify(Val.s(pat))
    r = z3.simplify(Val.s(repl))
    if not (z3.is_string_value(p) and z3.is_string_value(r) and r.as_string() == ""):
        raise T.Unsupported("re.sub with a dynamic pattern or a non-empty replacement")
    cls = charclass_regex(p.as_string())
    anyc = z3.Star(z3.AllChar(z3.ReSort(z3.StringSort())))
    has_bad = z3.InRe(Val.s(s_), z3.Concat(anyc, cls, anyc))
    res = resub(Val.s(s_))
    st = st.copy()
    st.ghost["checked_name"] = s_
    st.assume_hard((res == Val.s(s_)) == z3.Not(has_bad))      # regular-expression fact: obligations only
    alts = [(V.is_str(s_), ("val", V.VStr(res))), (z3.Not(z3.Or(V.is_str(s_), V.is_bytes(s_))), ("raise", TypeError)),
            (V.is_bytes(s_), ("raise", TypeError))]
    return ex.apply_op(st, alts, "re.sub")


def _str_split(ex, st, s_, args):
    """s.split(sep): a list of at least one str; exactly one part iff sep does not occur in s, and then the part is s"""
    sep = args[0]
    T.used("str.split", _str_split.__doc__.strip())
    r = split_of(Val.s(s_), Val.s(sep))
    st = st.copy()
    n = Val.llen(r)
    st.assume(z3.And(V.is_list(r), n >= 1, z3.Implies(n == 1, z3.Select(Val.lat(r), 0) == s_)))
    st.assume_hard((n == 1) == z3.Not(z3.Contains(Val.s(s_), Val.s(sep))))
    st.assume(z3.And(V.is_str(z3.Select(Val.lat(r), 0)), V.is_str(z3.Select(Val.lat(r), n - 1))))
    alts = [(z3.And(V.is_str(s_), V.is_str(sep), z3.Length(Val.s(sep)) > 0), ("val", r)),
            (z3.And(V.is_str(s_), V.is_str(sep), z3.Length(Val.s(sep)) == 0), ("raise", ValueError)),
            (z3.And(V.is_str(s_), z3.Not(V.is_str(sep))), ("raise", TypeError)),
            (z3.Not(V.is_str(s_)), ("raise", AttributeError))]
    return ex.apply_op(st, alts, "split")


TABLE.str_split = _str_split


@TABLE.register("builtins.__import__")
def _import(ex, st, args, kwargs, text):
    """__import__(name, fromlist=...): appends name to ghost `imports`; returns an opaque module object, or raises
    ImportError, or (e.g. for an empty name) another exception"""
    name = ex.lift(args[0])
    st = st.copy()
    TABLE.ghost_append(st, "imports", name)
    out = []
    s_ok = st.copy()
    s_ok.sig.append("import:ok")
    out.append((s_ok, ("val", module_obj(Val.s(name)))))
    s_ie = st.copy()
    s_ie.sig.append("import:ImportError")
    out.append((s_ie, ("raise", ex.make_exc(s_ie, ImportError))))
    s_ot = st.copy()
    s_ot.sig.append("import:other")
    e = ex.env_exc(s_ot, Exception)
    s_ot.assume(z3.Not(C.subclass(C.cls_of(Val.ref(e)), ImportError)))
    out.append((s_ot, ("raise", e)))
    return out


def _setattr_dyn(ex, st, args, text):
    """setattr(obj, name, value) on an object the class translator just built: records the assignment in ghost
    `constructs` (no attribute of the repository's objects changes); may raise (e.g. AttributeError for slots)"""
    obj, name, value = [ex.lift(a) for a in args]
    T.used("setattr on a constructed bean", _setattr_dyn.__doc__.strip())
    st = st.copy()
    TABLE.ghost_append(st, "constructs", V.mk_tuple([V.S("setattr"), obj, name, value]))
    ba = TABLE.ghost(st, "bean_attrs")
    st_ok_attrs = z3.Store(ba, Val.ref(obj), z3.Store(z3.Select(ba, Val.ref(obj)), Val.s(name), value))
    s_ok = st.copy()
    s_ok.ghost["bean_attrs"] = st_ok_attrs
    s_ex = st.copy()
    e = ex.env_exc(s_ex, Exception)
    out = []
    for s2, tag in ex.fork(s_ok, [(V.is_str(name), "ok"), (z3.Not(V.is_str(name)), "badname")], "setattr-name"):
        if tag == "ok":
            out.append((s2, ("val", V.VNone)))
        else:
            s3 = st.copy()
            s3.assume(z3.Not(V.is_str(name)))
            out.append((s3, ("raise", ex.make_exc(s3, TypeError))))      # attribute name must be string
    return out + [(s_ex, ("raise", e))]


TABLE.setattr_dyn = _setattr_dyn


# ---------------------------------------------------------------------------------------------------------
# HTTP connection / response / xmlrpc Transport (assumed protocol, DESIGN section 3)
T.declare_ghost("closes", z3.IntSort())            # number of Transport.close() calls
T.declare_ghost("exchanges", z3.IntSort())         # number of getresponse() calls that returned
T.declare_ghost("drained", Val)                    # responses whose body was read
parsed_of = z3.Function("parsed_of", Val, Val)     # what parse_response returns for a response object
header_of = z3.Function("header_of", Val, z3.StringSort(), Val)
bjoin_of = z3.Function("bjoin_of", Val, z3.StringSort())     # b"".join(chunks) / "".join(chunks): the concatenation

HTTPCONN = "http.client.HTTPConnection"
HTTPRESP = "http.client.HTTPResponse"


def _wire_call(name, may_raise=True, doc=None):
    def handler(ex, st, args, kwargs, text):
        conn = ex.lift(args[0])
        rest = [ex.lift(a) for a in args[1:]]
        st = st.copy()
        TABLE.ghost_append(st, "wire", V.mk_tuple([V.S(name)] + rest))
        out = [(st, ("val", V.VNone))]
        if may_raise:
            s_ex = st.copy()
            s_ex.sig.append("%s:raise" % name)
            e = ex.env_exc(s_ex, BaseException)
            out.append((s_ex, ("raise", e)))
        return out
    handler.__doc__ = doc or ("HTTPConnection.%s: appends the call and its arguments verbatim to ghost `wire`; may raise any "
                              "exception (socket errors, http.client state errors)" % name)
    return handler


for _m in ("putrequest", "putheader", "endheaders", "send", "set_debuglevel"):
    TABLE.register("http.client.HTTPConnection." + _m, _wire_call(_m))


@TABLE.register("http.client.HTTPConnection.getresponse")
def _getresponse(ex, st, args, kwargs, text):
    """HTTPConnection.getresponse(): a fresh response object with an int status, or any exception"""
    import http.client
    st = st.copy()
    s_ok = st.copy()
    r = s_ok.alloc(http.client.HTTPResponse)
    s_ok.assume(V.is_int(s_ok.read(Val.ref(r), "status")))
    s_ok.ghost["exchanges"] = TABLE.ghost(s_ok, "exchanges") + 1
    s_ok.ghost["last_response"] = r
    s_ex = st.copy()
    s_ex.sig.append("getresponse:raise")
    e = ex.env_exc(s_ex, BaseException)
    return [(s_ok, ("val", r)), (s_ex, ("raise", e))]


T.declare_ghost("last_response", Val)


@TABLE.register("http.client.HTTPResponse.getheader")
def _getheader(ex, st, args, kwargs, text):
    """HTTPResponse.getheader(name, default): the header value or the default (opaque); a truthy Content-Length means that the
    body is delimited (reading it cannot wait for the peer to close the connection)"""
    r, name = ex.lift(args[0]), ex.lift(args[1])
    st = st.copy()
    val = header_of(r, Val.s(name))
    st.assume(z3.Implies(z3.And(Val.s(name) == z3.StringVal("content-length"), V.truthy(val)), body_delimited(Val.ref(r))))
    return [(st, ("val", val))]


body_delimited = z3.Function("body_delimited", z3.IntSort(), z3.BoolSort())


@TABLE.register("http.client.HTTPResponse.read")
def _resp_read(ex, st, args, kwargs, text):
    """HTTPResponse.read(): records the response in ghost `drained`; returns bytes or raises any exception.  REQUIRES that the
    body is delimited (obligation pre-of[HTTPResponse.read:body_is_delimited]): without a declared length http.client reads
    until the peer closes, which a peer that keeps the connection open never does - the call would neither return nor raise"""
    from pyvc.symexec import Obligation
    r = ex.lift(args[0])
    st = st.copy()
    st.obligations.append(Obligation("%s/pre-of[http.client.HTTPResponse.read:body_is_delimited]" % ex.env.fn.key, st.hyps(),
                                     body_delimited(Val.ref(r)), st.sig, "pre-of", "body_is_delimited", ex.env.contract.props))
    TABLE.ghost_append(st, "drained", r)
    s_ex = st.copy()
    s_ex.sig.append("read:raise")
    e = ex.env_exc(s_ex, BaseException)
    b = V.fresh("body")
    st.assume(V.is_bytes(b))
    return [(st, ("val", b)), (s_ex, ("raise", e))]


FIELDS.declare(HTTPRESP, "status")
FIELDS.declare(HTTPRESP, "reason")
FIELDS.declare(HTTPRESP, "msg")


@TABLE.register("xmlrpc.client.Transport.close")
def _tr_close(ex, st, args, kwargs, text):
    """xmlrpc.client.Transport.close(): drops the cached connection (ghost `closes` += 1); does not raise"""
    st = st.copy()
    st.ghost["closes"] = TABLE.ghost(st, "closes") + 1
    st.write(Val.ref(ex.lift(args[0])), "_connection", V.mk_tuple([V.VNone, V.VNone]))
    return [(st, ("val", V.VNone))]


@TABLE.register("xmlrpc.client.Transport.make_connection")
def _tr_make_connection(ex, st, args, kwargs, text):
    """xmlrpc.client.Transport.make_connection(host): an HTTPConnection object (cached or new); may raise"""
    import http.client
    st = st.copy()
    c = V.fresh("conn")
    st.assume(z3.And(V.is_obj(c), Val.ref(c) >= 0, C.subclass(C.cls_of(Val.ref(c)), http.client.HTTPConnection)))
    st.settype(c, http.client.HTTPConnection)
    s_ex = st.copy()
    e = ex.env_exc(s_ex, BaseException)
    return [(st, ("val", c)), (s_ex, ("raise", e))]


@TABLE.register("xmlrpc.client.Transport.parse_response")
def _tr_parse_response(ex, st, args, kwargs, text):
    """xmlrpc.client.Transport.parse_response(response): feeds the body (gunzipped when so encoded) in order to
    getparser()'s parser and returns the target's close(): the value parsed_of(response); may raise"""
    r = ex.lift(args[1])
    s_ex = st.copy()
    e = ex.env_exc(s_ex, BaseException)
    return [(st, ("val", parsed_of(r))), (s_ex, ("raise", e))]


def _exc_init(ex, st, args, kwargs, text):
    """BaseException.__init__(self, *args): stores the arguments as self.args"""
    st = st.copy()
    st.write(Val.ref(ex.lift(args[0])), "args", V.mk_tuple([ex.lift(a) for a in args[1:]]))
    return [(st, ("val", V.VNone))]


for _k in ("builtins.Exception.__init__", "builtins.BaseException.__init__"):
    TABLE.register(_k, _exc_init)


# ---------------------------------------------------------------------------------------------------------
# urlparse, xmlrpc Transport.request
T.declare_ghost("transport_failed", z3.BoolSort())
T.declare_ghost("sent", Val)                       # (host, request target, body) handed to Transport.request
reply_of = z3.Function("reply_of", z3.IntSort(), Val)     # what the k-th exchange returns to the client
url_scheme = z3.Function("url_scheme", z3.StringSort(), z3.StringSort())
url_netloc = z3.Function("url_netloc", z3.StringSort(), z3.StringSort())
url_path = z3.Function("url_path", z3.StringSort(), z3.StringSort())
url_query = z3.Function("url_query", z3.StringSort(), z3.StringSort())


@TABLE.register("urllib.parse.urlparse")
def _urlparse(ex, st, args, kwargs, text):
    """urlparse(uri): an object with str attributes scheme, netloc, path, query (functions of the uri); for URLs
    without ';params' and '#fragment': uri == scheme '://' netloc path ['?' query]"""
    import urllib.parse
    uri = ex.lift(args[0])
    st = st.copy()
    r = st.alloc(urllib.parse.ParseResult)
    u = Val.s(uri)
    for f, fn in (("scheme", url_scheme), ("netloc", url_netloc), ("path", url_path), ("query", url_query)):
        st.write(Val.ref(r), f, V.VStr(fn(u)))
    alts = [(V.is_str(uri), ("val", r)), (z3.Not(V.is_str(uri)), ("unsupported", "urlparse of a non-str"))]
    return ex.apply_op(st, alts, "urlparse")


for _f in ("scheme", "netloc", "path", "query"):
    FIELDS.declare("urllib.parse.ParseResult", _f)


@TABLE.register("xmlrpc.client.Transport.request")
def _tr_request(ex, st, args, kwargs, text):
    """xmlrpc.client.Transport.request(host, handler, body, verbose): performs one exchange through single_request
    (a second attempt only after a dropped connection); records (host, handler, body) in ghost `sent`; returns what the
    exchange yields (ghost reply_of(number of exchanges so far)) or raises any exception"""
    host, handler, body = [ex.lift(a) for a in args[1:4]]
    st = st.copy()
    n = Val.llen(TABLE.ghost(st, "sent"))
    TABLE.ghost_append(st, "sent", V.mk_tuple([host, handler, body]))
    s_ex = st.copy()
    s_ex.sig.append("request:raise")
    e = ex.env_exc(s_ex, BaseException)
    s_ex.ghost["transport_failed"] = z3.BoolVal(True)
    st.ghost["transport_failed"] = z3.BoolVal(False)
    return [(st, ("val", reply_of(n))), (s_ex, ("raise", e))]


def _yield_point(ex, st, e):
    """a `yield` of a @contextmanager generator: the with-block runs here; it either completes (the generator is
    resumed normally) or raises (the exception is raised at the yield).  The header stack is assumed to be the same at
    resumption as at suspension (nested blocks restore it: this very contract)."""
    T.used("contextlib.contextmanager yield", _yield_point.__doc__.strip())
    res = ex.eval(st, e.value) if e.value is not None else [(st, ("val", V.VNone))]
    out = []
    for s, oc in res:
        if oc[0] == "raise":
            out.append((s, oc))
            continue
        s_ok = s.copy()
        s_ok.sig.append("yield:resumed")
        out.append((s_ok, ("val", V.VNone)))
        s_ex = s.copy()
        s_ex.sig.append("yield:block-raised")
        out.append((s_ex, ("raise", ex.env_exc(s_ex, BaseException))))
    return out


TABLE.yield_point = _yield_point


def _noop_init(fields):
    def h(ex, st, args, kwargs, text):
        st = st.copy()
        me = ex.lift(args[0])
        for f, v in fields.items():
            st.write(Val.ref(me), f, v() if callable(v) else v)
        return [(st, ("val", V.VNone))]
    return h


_xml_init = _noop_init({"_connection": lambda: V.mk_tuple([V.VNone, V.VNone]), "_extra_headers": lambda: V.empty_list()})
_xml_init.__doc__ = ("xmlrpc.client.Transport.__init__ / SafeTransport.__init__: sets the connection cache and the extra "
                     "header list; touches nothing of the mix-in's state")
TABLE.register("xmlrpc.client.Transport.__init__", _xml_init)
TABLE.register("xmlrpc.client.SafeTransport.__init__", _xml_init)


@TABLE.register("posixpath.abspath")
def _abspath(ex, st, args, kwargs, text):
    """os.path.abspath(p): an opaque str"""
    r = V.fresh("abspath")
    st = st.copy()
    st.assume(V.is_str(r))
    return [(st, ("val", r))]


def _append_facts(old, x, new):
    """unfolding of the list folds (all_bytes, all_str, bjoin_of) at an append: definitional axioms of those
    specification functions, instantiated where a list grows"""
    return [all_bytes(new) == z3.And(all_bytes(old), V.is_bytes(x)),
            all_str(new) == z3.And(all_str(old), V.is_str(x)),
            bjoin_of(new) == z3.Concat(bjoin_of(old), z3.If(V.is_bytes(x), Val.y(x), Val.s(x)))]


TABLE.append_facts = _append_facts


def fold_base_facts():
    e = V.empty_list()
    return [all_bytes(e), all_str(e), bjoin_of(e) == sv("")]


import pyvc.vals as _V
_orig_ground = _V.ground_facts


def _ground_plus():
    return _orig_ground() + fold_base_facts()


_V.ground_facts = _ground_plus


# ---------------------------------------------------------------------------------------------------------
# HTTP request handler primitives (server side)
T.declare_ghost("out", Val)                       # what the handler wrote: status line, headers, end-of-headers, body
T.declare_ghost("in_body", z3.StringSort())       # the bytes the client sent as request body
T.declare_ghost("in_pos", z3.IntSort())           # how many of them have been read

HANDLER = "jsonrpclib.SimpleJSONRPCServer.SimpleJSONRPCRequestHandler"
FIELDS.declare(HANDLER, "server", type="jsonrpclib.SimpleJSONRPCServer.SimpleJSONRPCServer")
FIELDS.declare(HANDLER, "_dispatch", maybe_missing=True)
FIELDS.declare(HANDLER, "headers")
FIELDS.declare(HANDLER, "path")
FIELDS.declare(HANDLER, "rfile", type="io.BufferedReader")
FIELDS.declare(HANDLER, "wfile", type="io.BufferedWriter")


def _out_call(name, doc):
    def handler(ex, st, args, kwargs, text):
        rest = list(args)
        # the receiver comes first when the method was reached through a typed instance; a method taken from a concrete
        # stream object of the running interpreter (sys.stdout.buffer.write) is called with the data only
        if rest and (isinstance(rest[0], Meta) or (z3.is_expr(rest[0]) and st.typeof(rest[0]) is not None)):
            rest = rest[1:]
        rest = [ex.lift(a) for a in rest]
        st = st.copy()
        TABLE.ghost_append(st, "out", V.mk_tuple([V.S(name)] + rest))
        return [(st, ("val", V.VNone))]
    handler.__doc__ = doc
    return handler


for _key, _nm in (("http.server.BaseHTTPRequestHandler.send_response", "status"),
                  ("http.server.BaseHTTPRequestHandler.send_header", "header"),
                  ("http.server.BaseHTTPRequestHandler.end_headers", "end_headers"),
                  ("xmlrpc.server.SimpleXMLRPCRequestHandler.report_404", "report_404"),
                  ("_io.BufferedWriter.write", "write"), ("_io._BufferedIOBase.write", "write")):
    TABLE.register(_key, _out_call(_nm, "response-writing primitive of http.server: appends (%r, arguments...) to ghost `out`; "
                                        "assumed not to raise (a client that keeps its connection open)" % _nm))


@TABLE.register("xmlrpc.server.SimpleXMLRPCRequestHandler.is_rpc_path_valid")
def _is_rpc_path_valid(ex, st, args, kwargs, text):
    """is_rpc_path_valid(): an opaque bool"""
    return [(st, ("val", V.VBool(V.fresh("path_valid", z3.BoolSort()))))]


def _rfile_read(ex, st, args, kwargs, text):
    """rfile.read(n): the next m bytes of the request body with 1 <= m <= n, or b'' at end of input (short reads
    allowed); advances ghost in_pos; may raise any exception"""
    n = ex.lift(args[1])
    st = st.copy()
    body, pos = TABLE.ghost(st, "in_body"), TABLE.ghost(st, "in_pos")
    m = V.fresh("nread", z3.IntSort())
    st.assume(z3.And(pos >= 0, pos <= z3.Length(body)))
    avail = z3.Length(body) - pos
    st.assume(z3.And(m >= 0, m <= Val.i(n), m <= avail, z3.Implies(z3.And(avail > 0, Val.i(n) > 0), m >= 1)))
    chunk = V.VBytes(z3.SubString(body, pos, m))
    st.ghost["in_pos"] = pos + m
    st.assume(z3.Length(z3.SubString(body, pos, m)) == m)
    s_ex = st.copy()
    s_ex.sig.append("read:raise")
    e = ex.env_exc(s_ex, BaseException)
    alts = [(z3.And(V.is_int(n), Val.i(n) >= 0), ("val", chunk)), (z3.Not(z3.And(V.is_int(n), Val.i(n) >= 0)), ("unsupported", "rfile.read(n) with a non-int or negative n"))]
    return ex.apply_op(st, alts, "rfile.read") + [(s_ex, ("raise", e))]


for _k in ("_io.BufferedReader.read", "_io._BufferedIOBase.read"):
    TABLE.register(_k, _rfile_read)


@TABLE.register("xmlrpc.server.SimpleXMLRPCRequestHandler.decode_request_content")
def _decode_request_content(ex, st, args, kwargs, text):
    """decode_request_content(data): the data itself (identity encoding; gzip decoding is left to the stdlib), or None
    after having answered 501 for an unknown encoding"""
    data = ex.lift(args[1])
    s_none = st.copy()
    TABLE.ghost_append(s_none, "out", V.mk_tuple([V.S("status"), V.I(501)]))
    s_none.sig.append("decode:unknown-encoding")
    return [(st, ("val", data)), (s_none, ("val", V.VNone))]


# ---------------------------------------------------------------------------------------------------------
# threading / queue (linearizable contracts, DESIGN section 3)
import threading as _threading, queue as _queue

T.declare_ghost("q_items", Val)                  # contents of the task queue (a list)
T.declare_ghost("q_unfinished", z3.IntSort())    # put() minus task_done()
T.declare_ghost("q_gets", z3.IntSort())          # successful get()/get_nowait() calls
T.declare_ghost("q_dones", z3.IntSort())         # task_done() calls
T.declare_ghost("q_puts", z3.IntSort())
T.declare_ghost("threads_started", z3.IntSort())
T.declare_ghost("thread_start_failures", z3.IntSort())

EVENT = "threading.Event"
FIELDS.declare(EVENT, "_flag")


def _ctor_event(ex, st, args, kwargs, text):
    """threading.Event(): a new event, not set"""
    st = st.copy()
    e = st.alloc(_threading.Event)
    st.write(Val.ref(e), "_flag", V.B(False))
    return [(st, ("val", e))]


import pyvc.builtins_model as _B
_B._CTORS[_threading.Event] = _ctor_event


@TABLE.register("threading.Event.set")
def _ev_set(ex, st, args, kwargs, text):
    """Event.set(): the flag becomes true (atomic); does not raise"""
    st = st.copy()
    st.write(Val.ref(ex.lift(args[0])), "_flag", V.B(True))
    return [(st, ("val", V.VNone))]


@TABLE.register("threading.Event.clear")
def _ev_clear(ex, st, args, kwargs, text):
    """Event.clear(): the flag becomes false (atomic); does not raise"""
    st = st.copy()
    st.write(Val.ref(ex.lift(args[0])), "_flag", V.B(False))
    return [(st, ("val", V.VNone))]


def _ev_is_set(ex, st, args, kwargs, text):
    """Event.is_set(): the current flag"""
    return [(st, ("val", st.read(Val.ref(ex.lift(args[0])), "_flag")))]


TABLE.register("threading.Event.is_set", _ev_is_set)
TABLE.register("threading.Event.isSet", _ev_is_set)


@TABLE.register("threading.Event.wait")
def _ev_wait(ex, st, args, kwargs, text):
    """Event.wait(timeout): returns True if the flag is (or becomes, through another thread) set, False only after the
    timeout elapsed with the flag still clear; a True result means the flag is set at return"""
    e = ex.lift(args[0])
    st = st.copy()
    flag = st.read(Val.ref(e), "_flag")
    b = V.fresh("waited", z3.BoolSort())
    st.assume(z3.Implies(Val.b(flag), b))
    # another thread may have set it while we waited
    st.write(Val.ref(e), "_flag", V.VBool(b))
    return [(st, ("val", V.VBool(b)))]


@TABLE.register("logging.getLogger")
def _get_logger(ex, st, args, kwargs, text):
    """logging.getLogger(name): a Logger object"""
    import logging
    st = st.copy()
    lg = V.fresh("logger")
    st.assume(z3.And(V.is_obj(lg), Val.ref(lg) >= 0, C.subclass(C.cls_of(Val.ref(lg)), logging.Logger)))
    st.settype(lg, logging.Logger)
    return [(st, ("val", lg))]


# --- queue.Queue / Thread / RLock -----------------------------------------------------------------------------
QUEUE = "queue.Queue"
THREAD = "threading.Thread"
FIELDS.declare(QUEUE, "maxsize")
FIELDS.declare(QUEUE, "unfinished_tasks")
FIELDS.declare(QUEUE, "all_tasks_done", type="threading.Condition")
FIELDS.declare(THREAD, "daemon")
FIELDS.declare(THREAD, "name")



cond_owner = z3.Function("cond_owner", z3.IntSort(), z3.IntSort())     # the queue a Condition object belongs to


def _ctor_queue(ex, st, args, kwargs, text):
    """queue.Queue(maxsize): a new empty queue"""
    st = st.copy()
    q = st.alloc(_queue.Queue)
    ms = ex.lift(args[0]) if args else V.I(0)
    st.write(Val.ref(q), "maxsize", ms)
    st.write(Val.ref(q), "unfinished_tasks", V.I(0))
    cond = st.alloc(_threading.Condition)
    st.write(Val.ref(q), "all_tasks_done", cond)
    st.assume(cond_owner(Val.ref(cond)) == Val.ref(q))
    st.ghost["q_items"] = V.empty_list()
    return [(st, ("val", q))]


def _ctor_thread(ex, st, args, kwargs, text):
    """threading.Thread(target=..., name=...): a new, not started thread object"""
    st = st.copy()
    t = st.alloc(_threading.Thread)
    st.write(Val.ref(t), "name", ex.lift(kwargs.get("name", V.VNone)) if not isinstance(kwargs.get("name"), type(None)) else V.VNone)
    st.write(Val.ref(t), "daemon", V.B(False))
    return [(st, ("val", t))]


def _ctor_rlock(ex, st, args, kwargs, text):
    """threading.RLock(): a new re-entrant lock"""
    st = st.copy()
    l = st.alloc(type(_threading.RLock()))
    return [(st, ("val", l))]


_B._CTORS[_queue.Queue] = _ctor_queue
_B._CTORS[_threading.Thread] = _ctor_thread
_B._FUNCS[_threading.RLock] = _ctor_rlock


def _ctor_lock(ex, st, args, kwargs, text):
    """threading.Lock(): a new, free, non re-entrant lock"""
    st = st.copy()
    l = st.alloc(type(_threading.Lock()))
    return [(st, ("val", l))]


_B._FUNCS[_threading.Lock] = _ctor_lock
T.declare_ghost("slot_log", Val)      # FutureResult: one entry (seen cb, seen extra, left cb, left extra) per critical section


def _q(st):
    g = TABLE.ghost(st, "q_items")
    st.assume(z3.And(V.is_list(g), Val.llen(g) >= 0))
    return g


@TABLE.register("queue.Queue.put")
def _q_put(ex, st, args, kwargs, text):
    """Queue.put(item, block, timeout): appends item to the queue (ghost q_items and the never-shrinking pool_accepted),
    unfinished_tasks += 1; raises queue.Full only when the queue is bounded (maxsize > 0)"""
    q, item = ex.lift(args[0]), ex.lift(args[1])
    st = st.copy()
    mon = getattr(ex.env, "monitor", None)
    if mon is not None and ex.env.fn.qualname.endswith("ThreadPool.enqueue") and not st.locks:
        # Appendix B: the put, the pending count and the decision to start a worker form one critical section; the
        # retiring worker's test `extra_threads > qsize()` is evaluated under the same lock
        from pyvc.symexec import Obligation
        st.obligations.append(Obligation("%s/lock-discipline[queue.put]" % ex.env.fn.key, st.hyps(), z3.BoolVal(False), st.sig,
                                         "lock-discipline", "queue.put", ex.env.contract.props))
    g = _q(st)
    ms = st.read(Val.ref(q), "maxsize")
    s_full = st.copy()
    s_full.assume(z3.And(V.is_int(ms), Val.i(ms) > 0))
    s_full.sig.append("put:Full")
    out = []
    if ex.feasible(s_full):
        out.append((s_full, ("raise", ex.make_exc(s_full, _queue.Full))))
    st.ghost["q_items"] = V.VList(Val.llen(g) + 1, z3.Store(Val.lat(g), Val.llen(g), item))
    TABLE.ghost_append(st, "pool_accepted", item)
    st.ghost["q_puts"] = TABLE.ghost(st, "q_puts") + 1
    u = st.read(Val.ref(q), "unfinished_tasks")
    st.write(Val.ref(q), "unfinished_tasks", V.VInt(Val.i(u) + 1))
    return [(st, ("val", V.VNone))] + out


def _q_get(ex, st, args, kwargs, text):
    """Queue.get / get_nowait: removes and returns the head (each item is delivered to exactly one caller), q_gets += 1;
    or raises queue.Empty.  Items are the stop sentinel or 4-tuples (content invariant of the pool's queue)"""
    st = st.copy()
    g = _q(st)
    s_e = st.copy()
    s_e.sig.append("get:Empty")
    out = [(s_e, ("raise", ex.make_exc(s_e, _queue.Empty)))]
    s_ok = st.copy()
    s_ok.assume(Val.llen(g) >= 1)
    item = z3.Select(Val.lat(g), 0)
    # content invariant of the pool's queue (its only producers are enqueue and stop): the stop sentinel (an Event
    # object) or a (method, args, kwargs, future) tuple
    s_ok.assume(z3.Or(V.is_obj(item), z3.And(V.is_tuple(item), Val.tlen(item) == 4)))
    s_ok.assume(z3.Implies(V.is_tuple(item), has_attr(z3.Select(Val.tat(item), 3), sv("execute"))))
    me = s_ok.locals.get("self")
    if me is not None and z3.is_expr(me):
        s_ok.assume(z3.Implies(V.is_obj(item), item == s_ok.read(Val.ref(me), "_done_event")))
    j = z3.Int("j!q")
    s_ok.ghost["q_items"] = V.VList(Val.llen(g) - 1, z3.Lambda([j], z3.Select(Val.lat(g), j + 1)))
    s_ok.ghost["q_gets"] = TABLE.ghost(s_ok, "q_gets") + 1
    return [(s_ok, ("val", item))] + out


TABLE.register("queue.Queue.get", _q_get)


@TABLE.register("queue.Queue.get_nowait")
def _q_get_nowait(ex, st, args, kwargs, text):
    """Queue.get_nowait(): removes and returns the head (q_gets += 1), or raises queue.Empty exactly when the queue is
    empty"""
    res = _q_get(ex, st, args, kwargs, text)
    out = []
    for s, oc in res:
        if oc[0] == "raise":
            s.assume(Val.llen(TABLE.ghost(s, "q_items")) == 0)
            if not ex.feasible(s):
                continue
        out.append((s, oc))
    return out


@TABLE.register("queue.Queue.task_done")
def _q_task_done(ex, st, args, kwargs, text):
    """Queue.task_done(): unfinished_tasks -= 1, q_dones += 1"""
    q = ex.lift(args[0])
    st = st.copy()
    u = st.read(Val.ref(q), "unfinished_tasks")
    st.write(Val.ref(q), "unfinished_tasks", V.VInt(Val.i(u) - 1))
    st.ghost["q_dones"] = TABLE.ghost(st, "q_dones") + 1
    return [(st, ("val", V.VNone))]


@TABLE.register("queue.Queue.qsize")
def _q_qsize(ex, st, args, kwargs, text):
    """Queue.qsize(): number of queued items"""
    st = st.copy()
    return [(st, ("val", V.VInt(Val.llen(_q(st)))))]


@TABLE.register("queue.Queue.empty")
def _q_empty(ex, st, args, kwargs, text):
    """Queue.empty(): no queued item (says nothing about tasks being executed)"""
    st = st.copy()
    return [(st, ("val", V.VBool(Val.llen(_q(st)) == 0)))]


@TABLE.register("queue.Queue.join")
def _q_join(ex, st, args, kwargs, text):
    """Queue.join(): returns only when unfinished_tasks == 0 (other threads call task_done meanwhile)"""
    q = ex.lift(args[0])
    st = st.copy()
    st.write(Val.ref(q), "unfinished_tasks", V.I(0))
    st.ghost["q_items"] = V.fresh("q_after_join")
    return [(st, ("val", V.VNone))]


@TABLE.register("threading.Condition.wait")
def _cond_wait(ex, st, args, kwargs, text):
    """Condition.wait(timeout) on Queue.all_tasks_done: other threads may have finished tasks meanwhile
    (unfinished_tasks may have dropped, never below 0)"""
    st = st.copy()
    cond = ex.lift(args[0])
    qref = cond_owner(Val.ref(cond))           # only the queue this condition belongs to is affected
    cur = st.read(qref, "unfinished_tasks")
    nv = V.fresh("unfinished_after_wait")
    st.assume(z3.And(V.is_int(nv), Val.i(nv) >= 0, z3.Implies(V.is_int(cur), Val.i(nv) <= Val.i(cur))))
    st.write(qref, "unfinished_tasks", nv)
    return [(st, ("val", V.VBool(V.fresh("notified", z3.BoolSort()))))]


@TABLE.register("threading.Thread.start")
def _th_start(ex, st, args, kwargs, text):
    """Thread.start(): the target starts running in a new thread (ghost threads_started += 1), or RuntimeError"""
    st = st.copy()
    s_ex = st.copy()
    s_ex.sig.append("Thread.start:RuntimeError")
    s_ex.ghost["thread_start_failures"] = TABLE.ghost(s_ex, "thread_start_failures") + 1
    st.ghost["threads_started"] = TABLE.ghost(st, "threads_started") + 1
    return [(st, ("val", V.VNone)), (s_ex, ("raise", ex.make_exc(s_ex, RuntimeError)))]


@TABLE.register("threading.Thread.is_alive")
def _th_alive(ex, st, args, kwargs, text):
    """Thread.is_alive(): an opaque bool"""
    return [(st, ("val", V.VBool(V.fresh("alive", z3.BoolSort()))))]


@TABLE.register("threading.Thread.join")
def _th_join(ex, st, args, kwargs, text):
    """Thread.join(timeout): returns None"""
    return [(st, ("val", V.VNone))]


@TABLE.register("threading.current_thread")
def _cur_thread(ex, st, args, kwargs, text):
    """threading.current_thread(): the Thread object of the caller"""
    st = st.copy()
    t = V.fresh("me")
    st.assume(z3.And(V.is_obj(t), Val.ref(t) >= 0))
    return [(st, ("val", t))]


def _with_block(ex, st, cm, item, stmt):
    """`with lock:` / `with condition:`: the body runs with the lock held; it is released on every exit.  For the pool
    lock the monitor havocs the protected fields and assumes the lock invariant at acquisition and asserts it at release"""
    T.used("with <lock>", _with_block.__doc__.strip())
    from pyvc.symexec import RETURN, RAISE
    mon = getattr(ex.env, "monitor", None)
    cm = ex.lift(cm)
    if item.optional_vars is not None:
        raise T.Unsupported("with ... as name")
    s0 = st.copy()
    is_pool_lock = mon is not None and mon.is_lock(ex, s0, cm)
    if is_pool_lock:
        mon.acquire(ex, s0, cm)
    out = []
    for s, ctl in ex.exec_block(s0, stmt.body):
        if is_pool_lock:
            s = s.copy()
            mon.release(ex, s, cm, ctl)
        out.append((s, ctl))
    return out


TABLE.with_block = _with_block

T.declare_ghost("w_counted", z3.BoolSort())        # the running worker is still included in __nb_threads
T.declare_ghost("w_active", z3.BoolSort())         # the running worker is included in __nb_active_threads
T.declare_ghost("w_cs_uncounted", z3.BoolSort())


# --- socketserver ------------------------------------------------------------------------------------------------
T.declare_ghost("serving", z3.BoolSort())          # serve_forever() is running in another thread
T.declare_ghost("shutdown_log", Val)               # order of shutdown steps


@TABLE.register("socketserver.BaseServer.shutdown")
def _bs_shutdown(ex, st, args, kwargs, text):
    """BaseServer.shutdown(): REQUIRES that serve_forever() is running in another thread (documented: 'otherwise it
    will deadlock'); then the serving loop has exited when it returns"""
    from pyvc.symexec import Obligation
    st = st.copy()
    st.obligations.append(Obligation("%s/pre-of[socketserver.BaseServer.shutdown:serve_forever_is_running]" % ex.env.fn.key,
                                     st.hyps(), TABLE.ghost(st, "serving"), st.sig, "pre-of", "serve_forever_is_running",
                                     ex.env.contract.props))
    st.assume(TABLE.ghost(st, "serving"))
    st.ghost["serving"] = z3.BoolVal(False)
    TABLE.ghost_append(st, "shutdown_log", V.S("shutdown"))
    return [(st, ("val", V.VNone))]


@TABLE.register("socketserver.BaseServer.serve_forever")
def _bs_serve_forever(ex, st, args, kwargs, text):
    """BaseServer.serve_forever(): runs the serving loop until a shutdown request; `serving` holds from the call until it
    returns (a shutdown() issued just before the loop starts is honoured at loop entry: CPython tests the request flag
    first), and no longer afterwards.  A caller that publishes a 'serving' flag must have raised it before the call:
    emitted as the obligation pre-of[serve_forever:serving_flag_raised_before_the_loop]"""
    from pyvc.symexec import Obligation
    st = st.copy()
    me = ex.lift(args[0])
    flag = st.read(Val.ref(me), "_PooledJSONRPCServer__serving")
    st.obligations.append(Obligation("%s/pre-of[socketserver.BaseServer.serve_forever:serving_flag_raised_before_the_loop]" % ex.env.fn.key,
                                     st.hyps(), flag == V.B(True), st.sig, "pre-of", "serving_flag_raised_before_the_loop",
                                     ex.env.contract.props))
    st.ghost["serving"] = z3.BoolVal(False)
    TABLE.ghost_append(st, "shutdown_log", V.S("served"))
    s_ex = st.copy()
    s_ex.sig.append("serve_forever:raise")
    e = ex.env_exc(s_ex, BaseException)
    return [(st, ("val", V.VNone)), (s_ex, ("raise", e))]


@TABLE.register("socketserver.TCPServer.server_close")
def _tcp_server_close(ex, st, args, kwargs, text):
    """TCPServer.server_close(): closes the listening socket"""
    st = st.copy()
    TABLE.ghost_append(st, "shutdown_log", V.S("socket_closed"))
    return [(st, ("val", V.VNone))]


@TABLE.register("xmlrpc.client._Method.__init__")
def _xml_method_init(ex, st, args, kwargs, text):
    """xmlrpc.client._Method.__init__(self, send, name): stores both (self.__send = send; self.__name = name)"""
    st = st.copy()
    me = ex.lift(args[0])
    snd = args[1]
    from pyvc.symexec import BoundMeth
    if isinstance(snd, (BoundMeth, Meta)):
        snd = ex.reify(st, snd)
    st.write(Val.ref(me), "_Method__send", ex.lift(snd))
    st.write(Val.ref(me), "_Method__name", ex.lift(args[2]))
    return [(st, ("val", V.VNone))]


# --- CGI handler: print / sys.stdout (C17) --------------------------------------------------------------------------------------------
str_encoded = z3.Function("str_encoded", z3.StringSort(), z3.StringSort(), z3.StringSort())   # (text, codec name) -> bytes payload


def _str_encode(ex, st, s_, args):
    """str.encode(codec): the bytes str_encoded(text, codec) (enc_utf8(text) for the codec name 'UTF-8'), or LookupError for an
    unknown codec, or UnicodeEncodeError (a ValueError) for text the codec cannot represent"""
    T.used("str.encode", _str_encode.__doc__.strip())
    enc = ex.lift(args[0]) if args else V.S("utf-8")
    payload = z3.If(z3.Or(enc == V.S("UTF-8"), enc == V.S("utf-8")), V.enc_utf8(Val.s(s_)), str_encoded(Val.s(s_), Val.s(enc)))
    out = []
    s_ok = st.copy()
    s_ok.sig.append("encode:ok")
    out.append((s_ok, ("val", V.VBytes(payload))))
    for cls in (LookupError, ValueError, TypeError):
        s_ex = st.copy()
        s_ex.sig.append("encode:%s" % cls.__name__)
        e = ex.env_exc(s_ex, cls)
        out.append((s_ex, ("raise", e)))
    return out


TABLE.str_encode = _str_encode


def _print(ex, st, args, kwargs, text):
    """print(*values) to the process's standard output: appends ('print', values...) to ghost `out`; assumed not to raise"""
    T.used("print", _print.__doc__.strip())
    st = st.copy()
    TABLE.ghost_append(st, "out", V.mk_tuple([V.S("print")] + [ex.lift(a) for a in args]))
    return [(st, ("val", V.VNone))]


TABLE.print_ = _print
for _mod in ("_io", "builtins", "io"):
    for _cls in ("FileIO", "BufferedWriter", "TextIOWrapper", "_BufferedIOBase", "_IOBase", "BufferedIOBase", "IOBase", "_RawIOBase"):
        # whatever concrete stream class sys.stdout(.buffer) has in the process that runs the verifier
        TABLE.register("%s.%s.flush" % (_mod, _cls),
                       _out_call("flush", "flush of the standard output stream: appends ('flush',) to ghost `out`; assumed not to raise"))
        if "%s.%s.write" % (_mod, _cls) not in TABLE.handlers:
            TABLE.register("%s.%s.write" % (_mod, _cls),
                           _out_call("write", "write to the standard output stream: appends ('write', data) to ghost `out`; "
                                              "assumed not to raise"))


@TABLE.register("xmlrpc.server.SimpleXMLRPCDispatcher.__init__")
def _xml_dispatcher_init(ex, st, args, kwargs, text):
    """SimpleXMLRPCDispatcher.__init__(self, allow_none, encoding, use_builtin_types): empty function table, no instance,
    the given encoding (or 'utf-8')"""
    st = st.copy()
    me = ex.lift(args[0])
    enc = kwargs.get("encoding", args[2] if len(args) > 2 else None)
    enc = V.S("utf-8") if enc is None else ex.lift(enc)
    st.write(Val.ref(me), "funcs", V.empty_dict())
    st.write(Val.ref(me), "instance", V.VNone)
    st.write(Val.ref(me), "allow_none", ex.lift(kwargs.get("allow_none", args[1] if len(args) > 1 else V.B(False))))
    st.write(Val.ref(me), "encoding", z3.If(V.truthy(enc), enc, V.S("utf-8")))
    st.write(Val.ref(me), "use_builtin_types", V.B(False))
    return [(st, ("val", V.VNone))]
