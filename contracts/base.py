"""Shared set-up for the sidecar contracts: the trusted table, static field knowledge, spec helpers."""
import z3
from pyvc import vals as V
from pyvc.vals import Val
from pyvc import classes as C
from pyvc import trusted as T
from pyvc.contracts import Contract, Field, Param, Ghost, LoopSpec
from pyvc.jsonish import jsonv, json_tags

TABLE = T.Table()
FIELDS = T.Fields()

sv = z3.StringVal


def implies(a, b):
    return z3.Implies(a, b)


def tup(*items):
    return V.mk_tuple(list(items))


def ks(name):
    return V.KS(sv(name))


def has(d, name):
    return V.has(d, name)


def get(d, name):
    return V.get(d, name)


def getdef(d, name, default):
    """d.get(name, default) for a dict d"""
    return z3.If(V.dict_has(d, ks(name)), V.get(d, name), default)
