"""Shared set-up for the sidecar contracts: the trusted table, static field knowledge, spec helpers."""
import z3
from pyvc import vals as V
from pyvc.vals import Val
from pyvc import classes as C
from pyvc import trusted as T
from pyvc.contracts import Contract, Field, Param, Ghost, LoopSpec
from pyvc.jsonish import jsonv, json_tags

TABLE = T.Table()
FIELDS = T.Fields()

sv = z3.StringVal


def implies(a, b):
    return z3.Implies(a, b)


def tup(*items):
    return V.mk_tuple(list(items))


def ks(name):
    return V.KS(sv(name))


def has(d, name):
    return V.has(d, name)


def get(d, name):
    return V.get(d, name)


def getdef(d, name, default):
    """d.get(name, default) for a dict d"""
    return z3.If(V.dict_has(d, ks(name)), V.get(d, name), default)


# ---------------------------------------------------------------------------------------------------------
# small-scope corpora for the bounded stand-ins
SCALARS = [None, True, False, 0, 1, -1, 7, 0.0, 1.5, -2.5, "", "x", "code", "id", "é中"]


def json_values(depth=1):
    out = list(SCALARS)
    if depth > 0:
        sub = [None, 0, "a", [], {}]
        out += [[], [1], ["code"], [None, "x"], {}, {"a": 1}, {"code": 1}, {"a": [1, {"b": None}]}]
        if depth > 1:
            out += [[v] for v in sub] + [{"k": v} for v in sub]
    return out


# ---------------------------------------------------------------------------------------------------------
# trusted externals (DESIGN section 3).  Each handler's docstring is the assumed contract and ends up in
# the evidence `trusted_base` when the handler is exercised.
import jsonrpclib.config as _cfgmod
from pyvc.symexec import ALLOC0, Meta
from pyvc import ops as _ops

DEFAULT_REF = z3.Int("DEFAULT_CONFIG_REF")
CONFIG = "jsonrpclib.config.Config"

T.declare_ghost("uuid_ctr", z3.IntSort())
T.declare_ghost("call_log", Val)
T.declare_ghost("imports", Val)
T.declare_ghost("constructs", Val)
T.declare_ghost("wire", Val)
T.declare_ghost("last_dumped", Val)

uuid_str = z3.Function("uuid_str", z3.IntSort(), z3.StringSort())
jloads_of = z3.Function("jloads_of", z3.StringSort(), Val)
json_text = z3.Function("json_text", z3.StringSort(), z3.BoolSort())     # the text is valid JSON


def default_config(ex=None, d=None):
    v = V.VObj(DEFAULT_REF)
    return v


TABLE.default_objects[id(_cfgmod.DEFAULT)] = default_config


def _setup_default(st):
    """facts about the shared default configuration object"""
    st.assume(z3.And(DEFAULT_REF >= 0, DEFAULT_REF < ALLOC0))
    st.assume(C.cls_of(DEFAULT_REF) == z3.IntVal(C.cid(_cfgmod.Config)))
    st.settype(V.VObj(DEFAULT_REF), _cfgmod.Config)
    # domain assumption: the shared default configuration holds valid values when the call starts
    rd = lambda f: st.read(DEFAULT_REF, f)
    st.assume(z3.And(is_version(rd("version")), V.is_bool(rd("use_jsonclass")), V.is_str(rd("content_type")),
                     V.is_str(rd("user_agent")), V.is_str(rd("serialize_method")), V.is_str(rd("ignore_attribute")),
                     V.is_dict(rd("classes")), V.is_dict(rd("serialize_handlers"))))


_orig_default = TABLE.default_object


def _default_object(ex, d):
    if d is _cfgmod.DEFAULT:
        return V.VObj(DEFAULT_REF)
    return Meta(d)


TABLE.default_object = _default_object


@TABLE.register("uuid.uuid4")
def _uuid4(ex, st, args, kwargs, text):
    """uuid.uuid4(): str() of the result is non-empty and distinct from every earlier one (ghost uuid_ctr)"""
    import uuid
    st = st.copy()
    n = TABLE.ghost(st, "uuid_ctr")
    u = st.alloc(uuid.UUID)
    st.assume(V.str_of(u) == uuid_str(n))
    st.assume(z3.Length(uuid_str(n)) > 0)
    st.ghost["uuid_ctr"] = n + 1
    return [(st, ("val", u))]


def _noop(ex, st, args, kwargs, text):
    """logging: evaluates its arguments, has no other effect, does not raise"""
    return [(st, ("val", V.VNone))]


for _lvl in ("debug", "info", "warning", "error", "exception", "critical", "log"):
    TABLE.register("logging.Logger." + _lvl, _noop)


def _jdumps(ex, st, args, kwargs, text):
    """json.dumps(v): total on JSON-representable values (returns jdumps_of(v), ASCII), TypeError otherwise;
    records the serialised value in ghost last_dumped"""
    v = ex.lift(args[0])
    alts = [(V.jdumps_ok(v), ("val", V.VStr(V.jdumps_of(v)))), (z3.Not(V.jdumps_ok(v)), ("raise", TypeError))]
    res = ex.apply_op(st, alts, "jdumps")
    out = []
    for s, oc in res:
        if oc[0] == "val":
            s = s.copy()
            s.ghost["last_dumped"] = v
            s.assume(z3.Length(V.jdumps_of(v)) > 0)
        out.append((s, oc))
    return out


TABLE.register("jsonrpclib.jsonlib.JsonHandler.get_methods.<locals>.dumps_py3", _jdumps)
TABLE.register("json.dumps", _jdumps)


@TABLE.register("json.loads")
def _jloads(ex, st, args, kwargs, text):
    """json.loads(s): for a str that is valid JSON returns jloads_of(s), built only from
    None/bool/int/float/str/list/dict-with-str-keys; ValueError for any other str; TypeError for a non-str"""
    v = ex.lift(args[0])
    s_ = Val.s(v)
    r = jloads_of(s_)
    alts = [(z3.And(V.is_str(v), json_text(s_)), ("val", r)),
            (z3.And(V.is_str(v), z3.Not(json_text(s_))), ("raise", ValueError)),
            (z3.Not(z3.Or(V.is_str(v), V.is_bytes(v))), ("raise", TypeError)),
            (V.is_bytes(v), ("unsupported", "json.loads(bytes)"))]
    res = ex.apply_op(st, alts, "jloads")
    for s2, oc in res:
        if oc[0] == "val":
            s2.pc.append(z3.And(jsonv(r), json_tags(r)))
    return res


# static field knowledge -----------------------------------------------------------------------------------
for _cls in ("jsonrpclib.jsonrpc.Fault",):
    FIELDS.declare(_cls, "config", type=CONFIG)
FIELDS.declare("jsonrpclib.SimpleJSONRPCServer.SimpleJSONRPCDispatcher", "json_config", type=CONFIG)
FIELDS.declare("jsonrpclib.jsonrpc.TransportMixIn", "_config", type=CONFIG)
FIELDS.declare("jsonrpclib.jsonrpc.TransportMixIn", "readonly_headers", const=True)
FIELDS.declare("jsonrpclib.jsonrpc.TransportMixIn", "_extra_headers", maybe_missing=True)
FIELDS.declare("jsonrpclib.jsonrpc.ServerProxy", "_config", type=CONFIG)
FIELDS.declare("jsonrpclib.jsonrpc.MultiCall", "_config", type=CONFIG)
FIELDS.declare("jsonrpclib.jsonrpc.MultiCallMethod", "_config", type=CONFIG)
FIELDS.declare("jsonrpclib.jsonrpc.MultiCallNotify", "_config", type=CONFIG)


def is_version(v):
    """what Config.version / a version argument may be (C14 quantifier): 1.0, 2.0, 1, 2, '1.0', '2.0'"""
    return z3.Or(v == V.VFloat(z3.RealVal(1)), v == V.VFloat(z3.RealVal(2)), v == V.I(1), v == V.I(2),
                 v == V.S("1.0"), v == V.S("2.0"))


def version_num(v):
    """float(v) for a valid version"""
    return z3.If(V.is_str(v), V.float_of_str(Val.s(v)), V.num(v))


def valid_config(c, cfg, heap="old"):
    rd = c.old if heap == "old" else c.new
    return z3.And(is_version(rd(cfg, "version")), V.is_bool(rd(cfg, "use_jsonclass")),
                  V.is_str(rd(cfg, "content_type")), V.is_str(rd(cfg, "user_agent")),
                  V.is_str(rd(cfg, "serialize_method")), V.is_str(rd(cfg, "ignore_attribute")),
                  V.is_dict(rd(cfg, "classes")), V.is_dict(rd(cfg, "serialize_handlers")))


def keyset(*names):
    a = V.EMPTY_HAS
    for n in names:
        a = z3.Store(a, ks(n), True)
    return a


def keyset_if(pairs):
    """pairs: list of (name, condition)"""
    a = V.EMPTY_HAS
    for n, cond in pairs:
        a = z3.Store(a, ks(n), cond)
    return a


TABLE.entry_setup = _setup_default

TABLE.global_objects = [(DEFAULT_REF, _cfgmod.DEFAULT)]
