"""Shared set-up for the sidecar contracts: the trusted table, static field knowledge, spec helpers."""
import z3
from pyvc import vals as V
from pyvc.vals import Val
from pyvc import classes as C
from pyvc import trusted as T
from pyvc.contracts import Contract, Field, Param, Ghost, LoopSpec, Fresh
from pyvc.jsonish import jsonv, json_tags

TABLE = T.Table()
FIELDS = T.Fields()

sv = z3.StringVal


def implies(a, b):
    return z3.Implies(a, b)


def tup(*items):
    return V.mk_tuple(list(items))


def ks(name):
    return V.KS(sv(name))


def has(d, name):
    return V.has(d, name)


def get(d, name):
    return V.get(d, name)


def getdef(d, name, default):
    """d.get(name, default) for a dict d"""
    return z3.If(V.dict_has(d, ks(name)), V.get(d, name), default)


# ---------------------------------------------------------------------------------------------------------
# small-scope corpora for the bounded stand-ins
SCALARS = [None, True, False, 0, 1, -1, 7, 0.0, 1.5, -2.5, "", "x", "code", "id", "é中"]


def json_values(depth=1):
    out = list(SCALARS)
    if depth > 0:
        sub = [None, 0, "a", [], {}]
        out += [[], [1], ["code"], [None, "x"], {}, {"a": 1}, {"code": 1}, {"a": [1, {"b": None}]}]
        if depth > 1:
            out += [[v] for v in sub] + [{"k": v} for v in sub]
    return out


# ---------------------------------------------------------------------------------------------------------
# trusted externals (DESIGN section 3).  Each handler's docstring is the assumed contract and ends up in
# the evidence `trusted_base` when the handler is exercised.
import jsonrpclib.config as _cfgmod
from pyvc.symexec import ALLOC0, Meta
from pyvc import ops as _ops

DEFAULT_REF = z3.Int("DEFAULT_CONFIG_REF")
CONFIG = "jsonrpclib.config.Config"

T.declare_ghost("uuid_ctr", z3.IntSort())
T.declare_ghost("call_log", Val)
T.declare_ghost("xlate_log", Val)          # calls made by the class translator (handlers, _serialize, constructors)
T.declare_ghost("imports", Val)
T.declare_ghost("constructs", Val)
T.declare_ghost("wire", Val)
T.declare_ghost("last_dumped", Val)

uuid_str = z3.Function("uuid_str", z3.IntSort(), z3.StringSort())
jloads_of = z3.Function("jloads_of", z3.StringSort(), Val)
json_text = z3.Function("json_text", z3.StringSort(), z3.BoolSort())     # the text is valid JSON


def default_config(ex=None, d=None):
    v = V.VObj(DEFAULT_REF)
    return v


TABLE.default_objects[id(_cfgmod.DEFAULT)] = default_config


def _setup_default(st):
    """facts about the shared default configuration object"""
    st.assume(z3.And(DEFAULT_REF >= 0, DEFAULT_REF < ALLOC0))
    st.assume(C.cls_of(DEFAULT_REF) == z3.IntVal(C.cid(_cfgmod.Config)))
    st.settype(V.VObj(DEFAULT_REF), _cfgmod.Config)
    # domain assumption: the shared default configuration holds valid values when the call starts
    rd = lambda f: st.read(DEFAULT_REF, f)
    st.assume(z3.And(z3.Or(rd("version") == V.VFloat(z3.RealVal(1)), rd("version") == V.VFloat(z3.RealVal(2)),
                           rd("version") == V.I(1), rd("version") == V.I(2)),
                     V.is_bool(rd("use_jsonclass")), V.is_str(rd("content_type")),
                     V.is_str(rd("user_agent")), V.is_str(rd("serialize_method")), V.is_str(rd("ignore_attribute")),
                     V.is_dict(rd("classes")), V.is_dict(rd("serialize_handlers"))))


_orig_default = TABLE.default_object


def _default_object(ex, d):
    if d is _cfgmod.DEFAULT:
        return V.VObj(DEFAULT_REF)
    return Meta(d)


TABLE.default_object = _default_object


@TABLE.register("uuid.uuid4")
def _uuid4(ex, st, args, kwargs, text):
    """uuid.uuid4(): str() of the result is non-empty and distinct from every earlier one (ghost uuid_ctr)"""
    import uuid
    st = st.copy()
    n = TABLE.ghost(st, "uuid_ctr")
    u = st.alloc(uuid.UUID)
    st.assume(V.str_of(u) == uuid_str(n))
    st.assume(z3.Length(uuid_str(n)) > 0)
    st.ghost["uuid_ctr"] = n + 1
    return [(st, ("val", u))]


def _noop(ex, st, args, kwargs, text):
    """logging: evaluates its arguments, has no other effect, does not raise"""
    return [(st, ("val", V.VNone))]


for _lvl in ("debug", "info", "warning", "error", "exception", "critical", "log"):
    TABLE.register("logging.Logger." + _lvl, _noop)


def _jdumps(ex, st, args, kwargs, text):
    """json.dumps(v): total on JSON-representable values (returns jdumps_of(v), ASCII), TypeError otherwise;
    records the serialised value in ghost last_dumped"""
    v = ex.lift(args[0])
    alts = [(V.jdumps_ok(v), ("val", V.VStr(V.jdumps_of(v)))), (z3.Not(V.jdumps_ok(v)), ("raise", TypeError))]
    res = ex.apply_op(st, alts, "jdumps")
    out = []
    for s, oc in res:
        if oc[0] == "val":
            s = s.copy()
            s.ghost["last_dumped"] = v
            s.assume(z3.Length(V.jdumps_of(v)) > 0)
        out.append((s, oc))
    return out


TABLE.register("jsonrpclib.jsonlib.JsonHandler.get_methods.<locals>.dumps_py3", _jdumps)
TABLE.register("json.dumps", _jdumps)


@TABLE.register("json.loads")
def _jloads(ex, st, args, kwargs, text):
    """json.loads(s): for a str that is valid JSON returns jloads_of(s), built only from
    None/bool/int/float/str/list/dict-with-str-keys; ValueError for any other str; TypeError for a non-str"""
    v = ex.lift(args[0])
    s_ = Val.s(v)
    r = jloads_of(s_)
    alts = [(z3.And(V.is_str(v), json_text(s_)), ("val", r)),
            (z3.And(V.is_str(v), z3.Not(json_text(s_))), ("raise", ValueError)),
            (z3.Not(z3.Or(V.is_str(v), V.is_bytes(v))), ("raise", TypeError)),
            (V.is_bytes(v), ("unsupported", "json.loads(bytes)"))]
    res = ex.apply_op(st, alts, "jloads")
    for s2, oc in res:
        if oc[0] == "val":
            s2.pc.append(z3.And(jsonv(r), json_tags(r)))
    return res


# static field knowledge -----------------------------------------------------------------------------------
for _cls in ("jsonrpclib.jsonrpc.Fault",):
    FIELDS.declare(_cls, "config", type=CONFIG)
FIELDS.declare("jsonrpclib.SimpleJSONRPCServer.SimpleJSONRPCDispatcher", "json_config", type=CONFIG)
FIELDS.declare("jsonrpclib.jsonrpc.TransportMixIn", "_config", type=CONFIG)
FIELDS.declare("jsonrpclib.jsonrpc.TransportMixIn", "readonly_headers", const=True)
FIELDS.declare("jsonrpclib.jsonrpc.TransportMixIn", "_extra_headers", maybe_missing=True)
FIELDS.declare("jsonrpclib.jsonrpc.ServerProxy", "_config", type=CONFIG)
FIELDS.declare("jsonrpclib.jsonrpc.MultiCall", "_config", type=CONFIG)
FIELDS.declare("jsonrpclib.jsonrpc.MultiCallMethod", "_config", type=CONFIG)
FIELDS.declare("jsonrpclib.jsonrpc.MultiCallNotify", "_config", type=CONFIG)


def is_version(v):
    """what Config.version / a version argument may be (C14 quantifier): 1.0, 2.0, 1, 2, '1.0', '2.0'"""
    return z3.Or(v == V.VFloat(z3.RealVal(1)), v == V.VFloat(z3.RealVal(2)), v == V.I(1), v == V.I(2),
                 v == V.S("1.0"), v == V.S("2.0"))


def version_num(v):
    """float(v) for a valid version"""
    return z3.If(V.is_str(v), V.float_of_str(Val.s(v)), V.num(v))


def is_config_version(v):
    """Config.version: numeric (the server compares it with `>= 2`)"""
    return z3.Or(v == V.VFloat(z3.RealVal(1)), v == V.VFloat(z3.RealVal(2)), v == V.I(1), v == V.I(2))


def valid_config(c, cfg, heap="old"):
    rd = c.old if heap == "old" else c.new
    return z3.And(is_config_version(rd(cfg, "version")), V.is_bool(rd(cfg, "use_jsonclass")),
                  V.is_str(rd(cfg, "content_type")), V.is_str(rd(cfg, "user_agent")),
                  V.is_str(rd(cfg, "serialize_method")), V.is_str(rd(cfg, "ignore_attribute")),
                  V.is_dict(rd(cfg, "classes")), V.is_dict(rd(cfg, "serialize_handlers")))


def keyset(*names):
    a = V.EMPTY_HAS
    for n in names:
        a = z3.Store(a, ks(n), True)
    return a


def keyset_if(pairs):
    """pairs: list of (name, condition)"""
    a = V.EMPTY_HAS
    for n, cond in pairs:
        a = z3.Store(a, ks(n), cond)
    return a


TABLE.entry_setup = _setup_default

TABLE.global_objects = [(DEFAULT_REF, _cfgmod.DEFAULT)]


# ---------------------------------------------------------------------------------------------------------
# dynamic attribute access, tracebacks, dotted-name resolution
has_attr = z3.Function("has_attr", Val, z3.StringSort(), z3.BoolSort())      # hasattr(obj, name) for opaque objects
attr_of = z3.Function("attr_of", Val, z3.StringSort(), Val)                  # getattr(obj, name) for opaque objects
resolvable = z3.Function("resolvable", Val, z3.StringSort(), z3.BoolSort())  # dotted resolution succeeds
resolved = z3.Function("resolved", Val, z3.StringSort(), Val)
opaque_str = z3.Function("opaque_str", z3.StringSort(), z3.StringSort(), z3.StringSort())   # (method name, s) -> s'
opaque_lines = z3.Function("opaque_lines", z3.StringSort(), Val)


def private_segment(m):
    """some '.'-separated segment of m starts with '_'"""
    return z3.Or(z3.PrefixOf(sv("_"), m), z3.Contains(m, sv("._")))


def _getattr_dyn(ex, st, args, text):
    """getattr(obj, name[, default]) on an instance the verifier knows nothing about: AttributeError unless
    has_attr(obj, name); the value is attr_of(obj, name) (opaque); invokes nothing"""
    from pyvc.symexec import BoundMeth
    obj, name = ex.lift(args[0]), ex.lift(args[1])
    pycls = st.typeof(obj) if z3.is_expr(obj) else None
    lit = None
    if z3.is_expr(name):
        nm = z3.simplify(Val.s(name))
        if z3.is_string_value(nm):
            lit = nm.as_string()
    if pycls is not None and lit is not None:
        res = ex.getattr_(st, obj, lit)
        if len(args) > 2:
            out = []
            for s2, oc in res:
                if oc[0] == "raise":
                    out.extend(ex.fork(s2, [(C.subclass(C.cls_of(Val.ref(oc[1])), AttributeError), ("val", ex.lift(args[2]))),
                                            (z3.Not(C.subclass(C.cls_of(Val.ref(oc[1])), AttributeError)), oc)], "getattr-default"))
                else:
                    out.append((s2, oc))
            return out
        return res
    T.used("getattr on an opaque object", _getattr_dyn.__doc__.strip())
    if not z3.is_expr(obj):
        raise T.Unsupported("getattr on a meta value") if hasattr(T, "Unsupported") else Exception("getattr on meta")
    h = has_attr(obj, Val.s(name))
    val = attr_of(obj, Val.s(name))
    if len(args) > 2:
        return [(st, ("val", z3.If(h, val, ex.lift(args[2]))))]
    return ex.apply_op(st, [(h, ("val", val)), (z3.Not(h), ("raise", AttributeError))], "getattr")


TABLE.getattr_dyn = _getattr_dyn


def _hasattr(ex, st, obj, name, text):
    """hasattr(obj, name) on an opaque object: the uninterpreted has_attr(obj, name)"""
    obj, name = ex.lift(obj), ex.lift(name)
    T.used("hasattr on an opaque object", _hasattr.__doc__.strip())
    from pyvc.symexec import Meta, BoundMeth
    if isinstance(obj, (Meta, BoundMeth)):
        if isinstance(obj, BoundMeth):
            return [(st, ("val", V.B(True)))]
        nm = z3.simplify(Val.s(name))
        return [(st, ("val", V.B(hasattr(obj.py, nm.as_string()))))]
    return [(st, ("val", V.VBool(has_attr(obj, Val.s(name)))))]


TABLE.hasattr_ = _hasattr


@TABLE.register("xmlrpc.server.resolve_dotted_attribute")
def _resolve_dotted(ex, st, args, kwargs, text):
    """resolve_dotted_attribute(obj, name, True): AttributeError if a '.'-segment starts with '_' or is
    missing, else the attribute (assumed not None: a registered instance exposes callables); invokes nothing"""
    obj, name = ex.lift(args[0]), ex.lift(args[1])
    m = Val.s(name)
    ok = z3.And(V.is_str(name), resolvable(obj, m))
    st = st.copy()
    st.assume(z3.Implies(resolvable(obj, m), z3.And(z3.Not(private_segment(m)), z3.Not(V.is_none(resolved(obj, m))))))
    return ex.apply_op(st, [(ok, ("val", resolved(obj, m))), (z3.Not(ok), ("raise", AttributeError))], "resolve_dotted")


@TABLE.register("sys.exc_info")
def _exc_info(ex, st, args, kwargs, text):
    """sys.exc_info(): (type, value, traceback) of the exception being handled"""
    if not st.exc_stack:
        raise Exception("sys.exc_info() outside a handler")
    e = st.exc_stack[-1]
    return [(st, ("val", V.mk_tuple([V.VType(C.cls_of(Val.ref(e))), e, V.fresh("tb")])))]


@TABLE.register("traceback.format_exception")
def _format_exception(ex, st, args, kwargs, text):
    """traceback.format_exception(type, value, tb): a list of at least two str lines whose last one is
    '<type name>: <str(value)>\\n' (exceptions with a single-line message, no notes)"""
    from pyvc.symexec import Star
    if len(args) == 1 and isinstance(args[0], Star):
        t = args[0].val
        e = z3.Select(Val.tat(t), 1)
    else:
        e = ex.lift(args[1])
    st = st.copy()
    lines = V.fresh("tb_lines")
    n = Val.llen(lines)
    last = z3.Select(Val.lat(lines), n - 1)
    prev = z3.Select(Val.lat(lines), n - 2)
    tname = C.cname(C.cls_of(Val.ref(e)))
    st.assume(z3.And(V.is_list(lines), n >= 2, V.is_str(last), V.is_str(prev), z3.Length(Val.s(prev)) > 0,
                     Val.s(last) == z3.Concat(tname, sv(": "), V.str_of(e), sv("\n"))))
    return [(st, ("val", lines))]


def _opaque_str_method(ex, st, s_, name, args):
    """str.strip / str.splitlines: opaque (only used to format the first line of a traceback)"""
    T.used("str.%s" % name, _opaque_str_method.__doc__.strip())
    if name == "splitlines":
        r = opaque_lines(Val.s(s_))
        st = st.copy()
        st.assume(z3.And(V.is_list(r), Val.llen(r) >= z3.If(z3.Length(Val.s(s_)) > 0, 1, 0)))
        for j in range(2):
            st.assume(V.is_str(z3.Select(Val.lat(r), z3.IntVal(j))))
        alts = [(V.is_str(s_), ("val", r)), (z3.Not(V.is_str(s_)), ("raise", AttributeError))]
        return ex.apply_op(st, alts, "splitlines")
    r = V.VStr(opaque_str(sv(name), Val.s(s_)))
    alts = [(V.is_str(s_), ("val", r)), (z3.Not(V.is_str(s_)), ("raise", AttributeError))]
    return ex.apply_op(st, alts, name)


TABLE.opaque_str_method = _opaque_str_method


join_of = z3.Function("join_of", z3.StringSort(), Val, z3.StringSort())


def _str_join(ex, st, sep, args):
    """sep.join(xs): for a literal list of strings the exact concatenation; otherwise the opaque join_of(sep, xs)
    with join_of(sep, []) == '' ; TypeError if an element is not a str"""
    from pyvc.trusted import LazySeq
    xs = args[0]
    if isinstance(xs, LazySeq):
        xs = xs.lst
    T.used("str.join", _str_join.__doc__.strip())
    sx = z3.simplify(xs)
    n = z3.simplify(V.seq_len(sx))
    if z3.is_int_value(n) and n.as_long() <= 8:
        items = [z3.simplify(z3.Select(V.seq_at(sx), z3.IntVal(j))) for j in range(n.as_long())]
        allstr = z3.And(*[V.is_str(i) for i in items]) if items else z3.BoolVal(True)
        parts = []
        for j, it in enumerate(items):
            if j:
                parts.append(Val.s(sep))
            parts.append(Val.s(it))
        res = z3.Concat(*parts) if len(parts) > 1 else (parts[0] if parts else sv(""))
        return ex.apply_op(st, [(allstr, ("val", V.VStr(res))), (z3.Not(allstr), ("raise", TypeError))], "join")
    st = st.copy()
    st.assume(z3.Implies(V.seq_len(xs) == 0, join_of(Val.s(sep), xs) == sv("")))
    return [(st, ("val", V.VStr(join_of(Val.s(sep), xs))))]


TABLE.str_join = _str_join


# ---------------------------------------------------------------------------------------------------------
# environment callables: outcome recorded in ghost state so that contracts of repository functions can
# speak about "the call that was made" (DESIGN 2.5: ghost updates are attached to trusted externals)
T.declare_ghost("env_kind", z3.IntSort())      # 0: the last environment call returned, 1: it raised
T.declare_ghost("env_val", Val)                # the returned value / the exception object
T.declare_ghost("env_calls", z3.IntSort())     # number of environment calls so far

import jsonrpclib.jsonrpc as _J


def _env_call(ex, st, f, argv, kw, text, base=Exception):
    """a callable supplied by the environment: appends (f, args, kwargs) to ghost call_log and bumps env_calls;
    returns any value that is not a Fault instance (ghost env_kind=0, env_val=value) or raises any Exception
    (env_kind=1, env_val=exception); ghost bind_err is true only if the TypeError was raised while binding
    the arguments, i.e. before the body ran; writes no attribute of the repository's objects"""
    T.used("environment callable", _env_call.__doc__.strip())
    st = st.copy()
    TABLE.ghost_append(st, "call_log", V.mk_tuple([f, argv, kw]))
    st.ghost["env_calls"] = TABLE.ghost(st, "env_calls") + 1
    ret = V.fresh("envret")
    s_ok = st.copy()
    s_ok.sig.append("env:%s:ret" % text)
    s_ok.assume(z3.Not(z3.And(V.is_obj(ret), C.subclass(C.cls_of(Val.ref(ret)), _J.Fault))))
    s_ok.assume(z3.Implies(V.is_obj(ret), Val.ref(ret) >= 0))
    s_ok.ghost["env_kind"] = z3.IntVal(0)
    s_ok.ghost["env_val"] = ret
    s_ok.ghost["bind_err"] = z3.BoolVal(False)
    s_ex = st.copy()
    s_ex.sig.append("env:%s:raise" % text)
    e = ex.env_exc(s_ex, base)
    be = V.fresh("bind_err", z3.BoolSort())
    s_ex.assume(z3.Implies(be, C.exact(C.cls_of(Val.ref(e)), TypeError)))
    s_ex.ghost["env_kind"] = z3.IntVal(1)
    s_ex.ghost["env_val"] = e
    s_ex.ghost["bind_err"] = be
    return [(s_ok, ("val", ret)), (s_ex, ("raise", e))]


TABLE.default_env_call = _env_call


bound_fn = z3.Function("bound_fn", Val, z3.StringSort(), z3.IntSort())     # identity of the bound method obj.name
_META_FUNS = {}


def _reify_bound(ex, st, bm):
    """a bound method of an instance used as a value: the opaque callable VFun(bound_fn(obj, name))"""
    return V.VFun(bound_fn(ex.lift(bm.recv), sv(bm.name)))


def _reify_meta(ex, st, m):
    p = m.py
    if isinstance(p, type):
        return V.VType(z3.IntVal(C.cid(p)))
    key = getattr(p, "__qualname__", repr(p))
    return V.VFun(z3.IntVal(-1000 - _META_FUNS.setdefault(key, len(_META_FUNS))))


TABLE.reify_bound = _reify_bound
TABLE.reify_meta = _reify_meta


def xlate_call(ex, st, f, argv, kw, text, base=Exception):
    """a callable invoked by the class translator (serialisation handler, custom serialise method, class
    constructor): appends to ghost xlate_log; returns any value or raises any Exception; writes no attribute of
    the repository's objects"""
    T.used("translator callable", xlate_call.__doc__.strip())
    st = st.copy()
    TABLE.ghost_append(st, "xlate_log", V.mk_tuple([f, argv, kw]))
    ret = V.fresh("xret")
    s_ok = st.copy()
    s_ok.sig.append("xlate:%s:ret" % text)
    s_ex = st.copy()
    s_ex.sig.append("xlate:%s:raise" % text)
    e = ex.env_exc(s_ex, base)
    return [(s_ok, ("val", ret)), (s_ex, ("raise", e))]

TABLE.xlate_call = xlate_call


def exact_keys(d, pairs):
    """d has exactly the str keys whose condition holds (key set and length)"""
    pairs = [(n, (z3.BoolVal(True) if c is True else c)) for n, c in pairs]
    return z3.And(Val.dhas(d) == keyset_if(pairs), Val.dlen(d) == z3.Sum([z3.If(c, 1, 0) for _, c in pairs]))


# translator callables: outcome in ghost state (like environment callables)
T.declare_ghost("x_kind", z3.IntSort())
T.declare_ghost("x_val", Val)


def xlate_call(ex, st, f, argv, kw, text, base=Exception):
    """a callable invoked by the class translator (serialisation handler, custom serialise method, class
    constructor): appends (f, args, kwargs) to ghost xlate_log; returns any value (ghost x_kind=0, x_val) or
    raises any Exception (x_kind=1); writes no attribute of the repository's objects"""
    T.used("translator callable", xlate_call.__doc__.strip())
    st = st.copy()
    TABLE.ghost_append(st, "xlate_log", V.mk_tuple([f, argv, kw]))
    ret = V.fresh("xret")
    s_ok = st.copy()
    s_ok.sig.append("xlate:%s:ret" % text)
    s_ok.ghost["x_kind"] = z3.IntVal(0)
    s_ok.ghost["x_val"] = ret
    s_ex = st.copy()
    s_ex.sig.append("xlate:%s:raise" % text)
    e = ex.env_exc(s_ex, base)
    s_ex.ghost["x_kind"] = z3.IntVal(1)
    s_ex.ghost["x_val"] = e
    return [(s_ok, ("val", ret)), (s_ex, ("raise", e))]


TABLE.xlate_call = xlate_call

module_of = z3.Function("module_of", z3.IntSort(), z3.IntSort())      # type id -> opaque id of its module object
module_name = z3.Function("fun_name", z3.IntSort(), z3.StringSort())  # shares the __name__ table of opaque callables


@TABLE.register("inspect.getmodule")
def _getmodule(ex, st, args, kwargs, text):
    """inspect.getmodule(cls): an opaque module object whose __name__ is a function of the class"""
    t = ex.lift(args[0])
    return [(st, ("val", V.VFun(module_of(Val.tid(t)))))]
