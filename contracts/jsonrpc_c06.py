"""C06: check_for_errors and its call sites."""
import z3
from pyvc import vals as V
from pyvc.vals import Val
from .base import *
import jsonrpclib.jsonrpc as J


def _err(c):
    return get(c.a.result, "error")


def _nonempty_error(c):
    r = c.a.result
    return z3.And(V.is_dict(r), has(r, "error"), V.truthy(_err(c)))


def _in_range(code):
    return z3.And(V.is_number(code), V.num(code) >= -32700, V.num(code) <= -32000)


def _message(e):
    return z3.If(V.dict_has(e, ks("message")), get(e, "message"), getdef(e, "trace", V.S("<no error message>")))


Contract(
    "jsonrpclib.jsonrpc.check_for_errors",
    kinds={"result": "json"},
    requires=[
        # domain of the property: a reply envelope, 1.0 or 2.0 form
        ("envelope", lambda c: implies(z3.And(V.is_dict(c.a.result), has(c.a.result, "jsonrpc")),
                                       z3.Or(get(c.a.result, "jsonrpc") == V.S("2.0"),
                                             get(c.a.result, "jsonrpc") == V.S("1.0")))),
        ("reply-object", lambda c: z3.Or(z3.Not(V.truthy(c.a.result)),
                                          z3.And(V.is_dict(c.a.result),
                                                 z3.Or(has(c.a.result, "result"), has(c.a.result, "error"))))),
    ],
    ensures=[
        ("error_raises", lambda c: implies(_nonempty_error(c), c.raises(J.ProtocolError)), ("C06",)),
        ("reserved_code", lambda c: implies(
            z3.And(_nonempty_error(c), V.is_dict(_err(c)), has(_err(c), "code"), _in_range(get(_err(c), "code"))),
            z3.And(c.raises_exactly(J.ProtocolError),
                   c.exc_args() == tup(tup(get(_err(c), "code"), _message(_err(c)))))), ("C06",)),
        ("application_code", lambda c: implies(
            z3.And(_nonempty_error(c), V.is_dict(_err(c)), has(_err(c), "code"),
                   z3.Not(_in_range(get(_err(c), "code")))),
            z3.And(c.raises_exactly(J.AppError),
                   c.exc_args() == tup(tup(get(_err(c), "code"), _message(_err(c)),
                                           getdef(_err(c), "data", V.VNone))))), ("C06",)),
        ("no_error_returns_reply", lambda c: implies(z3.Not(_nonempty_error(c)),
                                                    z3.And(c.returns, c.ret == c.a.result)), ("C06",)),
    ],
    modifies=[],
    props=("C06",),
)


def _corpus():
    codes = [-32701, -32700, -32699, -32600, -32001, -32000, -31999, 0, 1, 1234, -1, -32000.0, -32000.5, -31999.5,
             True, None, "abc", "-32000", [], {}]
    errors = [None, "", 0, False, [], {}, "boom", "some code here", 5, True, 1.5, ["code"], ["x", 1],
              {"reason": "x"}, {"message": "m"}, {"trace": "t"}, {"a": 1, "b": 2}, {"data": 1, "message": "m"}]
    for c in codes:
        errors += [{"code": c}, {"code": c, "message": "m"}, {"code": c, "trace": "t"},
                   {"code": c, "message": "m", "data": {"k": [1]}}, {"code": c, "message": None, "trace": "t", "data": 0}]
    envelopes = [{}, {"jsonrpc": "2.0"}, {"jsonrpc": "2.0", "id": 1}, {"id": "x"}]
    results = ["<absent>", None, 0, False, "", [], {}, 5, "r", [1, 2], {"k": None}]
    for env in envelopes:
        for e in errors + ["<absent>"]:
            for r in (results if e in (None, "<absent>", "", 0, False) or e == [] or e == {} else ["<absent>", None]):
                d = dict(env)
                if e != "<absent>":
                    d["error"] = e
                if r != "<absent>":
                    d["result"] = r
                yield {"result": d}
    for v in [None, "", 0, False, [], {}]:
        yield {"result": v}


REGISTRY_C06 = __import__("pyvc.contracts", fromlist=["REGISTRY"]).REGISTRY
REGISTRY_C06["jsonrpclib.jsonrpc.check_for_errors"].corpus = _corpus
REGISTRY_C06["jsonrpclib.jsonrpc.check_for_errors"].corpus_bound = \
    "4 envelopes x (18 error shapes + 20 codes x 5 code-bearing shapes) x result values"


# --- AppError.data: the third component of what check_for_errors put into the exception (C06 "exposing (code, message, data)") ----
def _app_args(c):
    return c.old(c.a.self, "args")


Contract(
    "jsonrpclib.jsonrpc.AppError.data",
    requires=[("raised_by_check_for_errors", lambda c: z3.And(
        V.is_tuple(_app_args(c)), Val.tlen(_app_args(c)) == 1,
        V.is_tuple(z3.Select(Val.tat(_app_args(c)), 0)), Val.tlen(z3.Select(Val.tat(_app_args(c)), 0)) == 3))],
    ensures=[("data_is_the_third_component", lambda c: z3.And(
        c.returns, c.ret == z3.Select(Val.tat(z3.Select(Val.tat(_app_args(c)), 0)), 2)), ("C06",))],
    modifies=[],
    props=("C06",),
)
