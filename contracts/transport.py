"""Client side (C17, C18, C19, C01, C06 call sites): utils.to_bytes/from_bytes, TransportMixIn.*, ServerProxy.*."""
import z3
from pyvc import vals as V
from pyvc.vals import Val
from pyvc import ops
from .base import *
import jsonrpclib.jsonrpc as J
import jsonrpclib.utils as U

TMIX = "jsonrpclib.jsonrpc.TransportMixIn"

# --- bytes <-> str --------------------------------------------------------------------------------------------------------
Contract(
    "jsonrpclib.utils.to_bytes",
    ensures=[
        ("bytes_pass_through", lambda c: implies(V.is_bytes(c.a.string), z3.And(c.returns, c.ret == c.a.string)), ("C17",)),
        ("str_is_utf8_encoded", lambda c: implies(V.is_str(c.a.string), z3.And(
            c.returns, c.ret == V.VBytes(V.enc_utf8(Val.s(c.a.string))))), ("C17",)),
        ("others_rejected", lambda c: implies(z3.Not(z3.Or(V.is_str(c.a.string), V.is_bytes(c.a.string))),
                                              c.raises(TypeError)), ("C17",)),
    ],
    modifies=[],
    props=("C17",),
)

Contract(
    "jsonrpclib.utils.from_bytes",
    ensures=[
        ("str_pass_through", lambda c: implies(V.is_str(c.a.data), z3.And(c.returns, c.ret == c.a.data)), ("C17",)),
        ("valid_utf8_is_decoded", lambda c: implies(z3.And(V.is_bytes(c.a.data), V.utf8_valid(Val.y(c.a.data))),
                                                    z3.And(c.returns, c.ret == V.VStr(V.dec_utf8(Val.y(c.a.data))))), ("C17",)),
        ("invalid_utf8_raises", lambda c: implies(z3.And(V.is_bytes(c.a.data), z3.Not(V.utf8_valid(Val.y(c.a.data)))),
                                                  c.raises(UnicodeDecodeError)), ("C17",)),
        ("others_rejected", lambda c: implies(z3.Not(z3.Or(V.is_str(c.a.data), V.is_bytes(c.a.data))),
                                              c.raises(TypeError)), ("C17",)),
    ],
    modifies=[],
    props=("C17",),
)

# --- header stack ------------------------------------------------------------------------------------------------------------
STACK = "additional_headers"


def _stack(c, heap="old"):
    return (c.old if heap == "old" else c.new)(c.a.self, STACK)


def _appended(lst, item):
    return V.VList(Val.llen(lst) + 1, z3.Store(Val.lat(lst), Val.llen(lst), item))


Contract(
    TMIX + ".push_headers",
    self_class="jsonrpclib.jsonrpc.Transport",
    requires=[("stack", lambda c: V.is_list(_stack(c)))],
    ensures=[("pushed_on_top", lambda c: z3.And(c.returns, _stack(c, "new") == _appended(_stack(c), c.a.headers)), ("C18",))],
    modifies=[Field(lambda c: c.a.self, STACK)],
    props=("C18",),
)

Contract(
    TMIX + ".pop_headers",
    self_class="jsonrpclib.jsonrpc.Transport",
    requires=[("stack", lambda c: z3.And(V.is_list(_stack(c)), Val.llen(_stack(c)) >= 0))],
    ensures=[
        ("pops_the_top", lambda c: implies(c.returns, z3.And(
            Val.llen(_stack(c)) >= 1,
            _stack(c, "new") == V.VList(Val.llen(_stack(c)) - 1, Val.lat(_stack(c))))), ("C18",)),
        ("pops_when_given_the_top_dict", lambda c: implies(
            z3.And(Val.llen(_stack(c)) >= 1, z3.Select(Val.lat(_stack(c)), Val.llen(_stack(c)) - 1) == c.a.headers), c.returns),
         ("C18",)),
        ("failure_leaves_stack", lambda c: implies(c.raised, _stack(c, "new") == _stack(c)), ("C18",)),
    ],
    modifies=[Field(lambda c: c.a.self, STACK)],
    props=("C18",),
)


# --- request emission ---------------------------------------------------------------------------------------------------------
FIELDS.declare(TMIX, "user_agent")
FIELDS.declare(TMIX, "verbose")
FIELDS.declare(TMIX, "accept_gzip_encoding")


def _wire_ext(c):
    """ghost wire only grows: the old log is a prefix of the new one"""
    w0, w1 = c.gold("wire"), c.gnew("wire")
    return z3.And(V.is_list(w1), Val.llen(w1) >= Val.llen(w0),
                  z3.Implies(z3.And(FJ >= 0, FJ < Val.llen(w0)), z3.Select(Val.lat(w1), FJ) == z3.Select(Val.lat(w0), FJ)))


FJ = z3.Int("FREE!j")


def _tm_inv(c, heap="old"):
    rd = c.old if heap == "old" else c.new
    t = c.a.self
    cfg = rd(t, "_config")
    return z3.And(V.is_list(rd(t, STACK)), Val.llen(rd(t, STACK)) >= 0, V.is_obj(cfg), Val.ref(cfg) >= 0,
                  C.subclass(C.cls_of(Val.ref(cfg)), __import__("jsonrpclib.config", fromlist=["Config"]).Config),
                  valid_config(c, cfg, heap), V.is_list(c.gold("wire")), Val.llen(c.gold("wire")) >= 0,
                  z3.Or(V.is_none(rd(t, "_extra_headers")), V.is_list(rd(t, "_extra_headers"))))


Contract(
    TMIX + ".emit_additional_headers",
    self_class="jsonrpclib.jsonrpc.Transport",
    kinds={"connection": "obj:" + HTTPCONN},
    requires=[("transport", _tm_inv)],
    ensures=[
        ("protected_headers_never_emitted", lambda c: implies(c.returns, z3.And(
            V.is_dict(c.ret), z3.Not(has(c.ret, "content-length")), z3.Not(has(c.ret, "content-type")))), ("C18",)),
        ("wire_only_grows", _wire_ext, ("C18", "C17")),
        ("stack_untouched", lambda c: c.new(c.a.self, STACK) == c.old(c.a.self, STACK), ("C18",)),
    ],
    loops={0: LoopSpec(lambda L: V.is_dict(L.v("additional_headers")), "merged-is-a-dict"),
           1: LoopSpec(lambda L: V.is_dict(L.v("additional_headers")), "merged-is-a-dict"),
           2: LoopSpec(lambda L: V.is_dict(L.v("additional_headers")), "merged-is-a-dict"),
           4: LoopSpec(lambda L: z3.And(V.is_list(L.ghost("wire")), Val.llen(L.ghost("wire")) >= Val.llen(L.ghost0("wire")),
                                        z3.Implies(z3.And(FJ >= 0, FJ < Val.llen(L.ghost0("wire"))),
                                                   z3.Select(Val.lat(L.ghost("wire")), FJ) ==
                                                   z3.Select(Val.lat(L.ghost0("wire")), FJ))), "wire-grows")},
    modifies=[Ghost("wire")],
    props=("C18",),
)


def _w(c, k):
    """k-th entry appended to the wire log by this call"""
    return z3.Select(Val.lat(c.gnew("wire")), Val.llen(c.gold("wire")) + k)


Contract(
    TMIX + ".send_request",
    self_class="jsonrpclib.jsonrpc.Transport",
    kinds={"connection": "obj:" + HTTPCONN},
    requires=[("transport", _tm_inv)],
    ensures=[
        ("posts_to_the_handler", lambda c: implies(c.returns, z3.And(
            c.ret == c.a.connection, _wire_ext(c), Val.llen(c.gnew("wire")) >= Val.llen(c.gold("wire")) + 1,
            z3.Or(z3.And(V.truthy(c.a.debug), _w(c, 0) == tup(V.S("set_debuglevel"), V.I(1))),
                  z3.And(z3.Not(V.truthy(c.a.debug)),
                         z3.Select(Val.tat(_w(c, 0)), 0) == V.S("putrequest"),
                         z3.Select(Val.tat(_w(c, 0)), 1) == V.S("POST"),
                         z3.Select(Val.tat(_w(c, 0)), 2) == c.a.handler)))), ("C17",)),
        ("wire_only_grows", _wire_ext, ("C17",)),
    ],
    modifies=[Ghost("wire")],
    props=("C17",),
)


def _body_bytes(c):
    b = c.a.request_body
    return z3.If(V.is_bytes(b), Val.y(b), V.enc_utf8(Val.s(b)))


Contract(
    TMIX + ".send_content",
    self_class="jsonrpclib.jsonrpc.Transport",
    kinds={"connection": "obj:" + HTTPCONN},
    requires=[("transport", _tm_inv),
              ("body", lambda c: z3.Or(V.is_str(c.a.request_body), V.is_bytes(c.a.request_body)))],
    ensures=[
        ("declares_type_and_byte_length_first", lambda c: implies(c.returns, z3.And(
            Val.llen(c.gnew("wire")) >= Val.llen(c.gold("wire")) + 3,
            _w(c, 0) == tup(V.S("putheader"), V.S("Content-Type"), c.old(c.old(c.a.self, "_config"), "content_type")),
            _w(c, 1) == tup(V.S("putheader"), V.S("Content-Length"),
                            V.VStr(V.int_to_str(z3.Length(_body_bytes(c))))))), ("C17", "C18")),
        ("wire_only_grows", _wire_ext, ("C17", "C18")),
        ("stack_untouched", lambda c: c.new(c.a.self, STACK) == c.old(c.a.self, STACK), ("C18",)),
    ],
    modifies=[Ghost("wire")],
    props=("C17", "C18"),
)

# --- single_request (C19) -------------------------------------------------------------------------------------------------------
TR = "jsonrpclib.jsonrpc.Transport"


def _te_args(c):
    """TransportError(host + handler, status, reason, msg) of this call's response"""
    r = c.gnew("last_response")
    return z3.And(c.new(c.exc, "url") == V.VStr(z3.Concat(Val.s(c.a.host), Val.s(c.a.handler))),
                  c.new(c.exc, "errcode") == c.new(r, "status"), c.new(c.exc, "errmsg") == c.new(r, "reason"),
                  c.new(c.exc, "msg") == c.new(r, "msg"))


Contract(
    TMIX + ".single_request",
    self_class=TR,
    kinds={"host": "str", "handler": "str"},
    requires=[("transport", _tm_inv),
              ("body", lambda c: z3.Or(V.is_str(c.a.request_body), V.is_bytes(c.a.request_body)))],
    ensures=[
        ("returns_only_the_parse_of_its_own_200_response", lambda c: implies(c.returns, z3.And(
            c.gnew("exchanges") == c.gold("exchanges") + 1,
            c.new(c.gnew("last_response"), "status") == V.I(200),
            c.ret == parsed_of(c.gnew("last_response")),
            c.fresh_obj(c.gnew("last_response")))), ("C19",)),
        ("non_200_raises_transport_error", lambda c: implies(
            z3.And(c.raised, c.gnew("exchanges") == c.gold("exchanges") + 1, c.gnew("closes") == c.gold("closes")),
            z3.Or(z3.And(c.raises_exactly(J.TransportError), c.new(c.gnew("last_response"), "status") != V.I(200),
                         _te_args(c)),
                  # draining the body of the error reply failed
                  z3.And(c.new(c.gnew("last_response"), "status") != V.I(200),
                         Val.llen(c.gnew("drained")) == Val.llen(c.gold("drained")) + 1))), ("C19",)),
        ("any_failure_of_the_exchange_resets_the_connection", lambda c: implies(
            z3.And(c.raised, Val.llen(c.gnew("wire")) > Val.llen(c.gold("wire")),     # a connection was obtained and used
                   z3.Or(c.gnew("exchanges") == c.gold("exchanges"),
                         c.new(c.gnew("last_response"), "status") == V.I(200))),
            c.gnew("closes") == c.gold("closes") + 1), ("C19",)),
        ("at_most_one_exchange", lambda c: z3.Or(c.gnew("exchanges") == c.gold("exchanges"),
                                                 c.gnew("exchanges") == c.gold("exchanges") + 1), ("C19",)),
    ],
    modifies=[Ghost("wire"), Ghost("closes"), Ghost("exchanges"), Ghost("last_response"), Ghost("drained"),
              Field(lambda c: c.a.self, "verbose"), Field(lambda c: c.a.self, "_connection"),
              Fresh("status"), Fresh("reason"), Fresh("msg"), Fresh("url"), Fresh("errcode"), Fresh("errmsg"), Fresh("args")],
    props=("C19",),
)

Contract(
    "jsonrpclib.jsonrpc.TransportError.__init__",
    ensures=[("fields", lambda c: z3.And(c.returns, c.new(c.a.self, "url") == c.a.url, c.new(c.a.self, "errcode") == c.a.errcode,
                                         c.new(c.a.self, "errmsg") == c.a.errmsg, c.new(c.a.self, "msg") == c.a.msg,
                                         c.new(c.a.self, "args") == tup(c.a.url, c.a.errcode, c.a.errmsg, c.a.msg)), ("C19",))],
    modifies=[Field(lambda c: c.a.self, f) for f in ("url", "errcode", "errmsg", "msg", "args")],
    props=("C19",),
)


# --- History --------------------------------------------------------------------------------------------------------------------
HIST = "jsonrpclib.history.History"
for _name, _field, _arg in (("add_request", "requests", "request_obj"), ("add_response", "responses", "response_obj")):
    Contract(
        HIST + "." + _name,
        requires=[("lists", lambda c, _f=_field: z3.And(V.is_list(c.old(c.a.self, _f)), Val.llen(c.old(c.a.self, _f)) >= 0))],
        ensures=[("appended_in_order", lambda c, _f=_field, _a=_arg: z3.And(
            c.returns, c.new(c.a.self, _f) == _appended(c.old(c.a.self, _f), c.args[_a])), ("C01",))],
        modifies=[Field(lambda c: c.a.self, _field)],
        props=("C01",),
    )

# --- ServerProxy ----------------------------------------------------------------------------------------------------------------
SP = "jsonrpclib.jsonrpc.ServerProxy"
_P = "_ServerProxy__"
FIELDS.declare(SP, _P + "transport", type=TR)
FIELDS.declare(SP, _P + "history", type=HIST)
for _f in ("host", "handler", "query_string", "version", "encoding", "verbose"):
    FIELDS.declare(SP, _P + _f)


def _sp_inv(c, heap="old"):
    rd = c.old if heap == "old" else c.new
    p = c.a.self
    t, h, cfg = rd(p, _P + "transport"), rd(p, _P + "history"), rd(p, "_config")
    return z3.And(
        V.is_obj(t), Val.ref(t) >= 0, Val.ref(t) < ALLOC0, C.subclass(C.cls_of(Val.ref(t)), J.Transport),
        z3.Or(V.is_none(h), z3.And(V.is_obj(h), Val.ref(h) >= 0, Val.ref(h) < ALLOC0, Val.ref(h) != Val.ref(p),
                                   C.subclass(C.cls_of(Val.ref(h)), __import__("jsonrpclib.history", fromlist=["History"]).History),
                                   V.is_list(rd(h, "requests")), Val.llen(rd(h, "requests")) >= 0,
                                   V.is_list(rd(h, "responses")), Val.llen(rd(h, "responses")) >= 0)),
        V.is_obj(cfg), Val.ref(cfg) >= 0, Val.ref(cfg) < ALLOC0,
        C.subclass(C.cls_of(Val.ref(cfg)), __import__("jsonrpclib.config", fromlist=["Config"]).Config),
        valid_config(c, cfg, heap),
        V.is_str(rd(p, _P + "host")), V.is_str(rd(p, _P + "handler")), V.is_str(rd(p, _P + "query_string")),
        z3.Or(V.is_none(rd(p, _P + "version")), is_version(rd(p, _P + "version"))),
        V.is_list(c.gold("sent")), Val.llen(c.gold("sent")) >= 0)


def _target(c):
    p = c.a.self
    h, q = Val.s(c.old(p, _P + "handler")), Val.s(c.old(p, _P + "query_string"))
    return V.VStr(z3.If(z3.Length(q) == 0, h, z3.Concat(h, sv("?"), q)))


def _reply(c):
    return reply_of(Val.llen(c.gold("sent")))


def _history_grew(c):
    h = c.old(c.a.self, _P + "history")
    return implies(z3.Not(V.is_none(h)), z3.And(
        c.new(h, "requests") == _appended(c.old(h, "requests"), c.a.request),
        implies(c.returns, c.new(h, "responses") == _appended(c.old(h, "responses"), _reply(c)))))


Contract(
    SP + "._run_request",
    kinds={"request": "str"},
    requires=[("proxy", _sp_inv)],
    ensures=[
        ("one_exchange_with_path_and_query", lambda c: z3.And(
            Val.llen(c.gnew("sent")) == Val.llen(c.gold("sent")) + 1,
            z3.Select(Val.lat(c.gnew("sent")), Val.llen(c.gold("sent"))) ==
            tup(c.old(c.a.self, _P + "host"), _target(c), c.a.request)), ("C17", "C01")),
        ("history_records_the_exchange", _history_grew, ("C01",)),
        ("empty_reply_is_none", lambda c: implies(z3.And(c.returns, z3.Not(V.truthy(_reply(c)))), V.is_none(c.ret)),
         ("C19", "C04")),
        ("fails_only_if_transport_or_decoding_fails", lambda c: implies(
            z3.And(c.raised, z3.Not(c.gnew("transport_failed"))),
            z3.Not(z3.And(z3.Or(z3.Not(V.truthy(_reply(c))), z3.And(V.is_str(_reply(c)), json_text(Val.s(_reply(c))))),
                          z3.Not(V.truthy(c.old(c.old(c.a.self, "_config"), "use_jsonclass")))))), ("C06", "C19")),
        ("transport_failure_propagates", lambda c: implies(c.gnew("transport_failed"), c.raised), ("C19",)),
        ("reply_is_decoded_with_the_proxy_config", lambda c: implies(
            z3.And(c.returns, V.is_str(_reply(c)), z3.Length(Val.s(_reply(c))) > 0, json_text(Val.s(_reply(c)))),
            c.ret == _decoded(c, _reply(c))), ("C01", "C08")),
    ],
    modifies=[Ghost("sent"), Ghost("imports"), Ghost("constructs"), Ghost("xlate_log"), Ghost("x_kind"), Ghost("x_val"),
              Ghost("checked_name"), Ghost("bean_attrs"), Ghost("transport_failed"), Field(lambda c: c.old(c.a.self, _P + "history"), "requests"),
              Field(lambda c: c.old(c.a.self, _P + "history"), "responses")],
    props=("C17", "C01", "C19"),
)


def _decoded(c, text):
    from .jsonrpc_msg import jcl, eff_classes
    cfg = c.old(c.a.self, "_config")
    jl = jloads_of(Val.s(text))
    return z3.If(V.truthy(c.old(cfg, "use_jsonclass")),
                 z3.If(V.is_none(jl), V.VNone, jcl(eff_classes(c.old(cfg, "classes")), jl)), jl)


def _reply_value(c):
    """the decoded reply of the exchange this call makes"""
    r = _reply(c)
    return z3.If(V.truthy(r), _decoded(c, r), V.VNone)


def _reply_domain(c):
    """C06 domain: the server's reply is empty or the JSON text of a reply envelope (1.0 or 2.0 form)"""
    r = _reply(c)
    R = _reply_value(c)
    return z3.And(z3.Or(V.is_none(r), V.is_str(r)),
                  implies(V.truthy(r), json_text(Val.s(r))),
                  z3.Or(z3.Not(V.truthy(R)), z3.And(V.is_dict(R), z3.Or(has(R, "result"), has(R, "error")))),
                  implies(z3.And(V.is_dict(R), has(R, "jsonrpc")),
                          z3.Or(get(R, "jsonrpc") == V.S("2.0"), get(R, "jsonrpc") == V.S("1.0"))),
                  # with class translation off the decoded value is plain JSON
                  jsonv(R), json_tags(R))


def _err_of(R):
    return get(R, "error")


def _has_error(R):
    return z3.And(V.is_dict(R), has(R, "error"), V.truthy(_err_of(R)))


for _name, _notify in (("_request", False), ("_request_notify", True)):
    Contract(
        SP + "." + _name,
        kinds={"methodname": "str"},
        requires=[("proxy", _sp_inv), ("reply-envelope", _reply_domain),
                  ("params", lambda c: z3.Or(V.is_list(c.a.params), V.is_tuple(c.a.params), V.is_dict(c.a.params)))] +
                 ([] if _notify else
                  [("reply-to-a-call", lambda c: z3.And(V.truthy(_reply_value(c)),
                                                        z3.Or(_has_error(_reply_value(c)), has(_reply_value(c), "result"))))]),
        ensures=[
            ("server_error_is_never_returned", lambda c: implies(c.returns, z3.Not(_has_error(_reply_value(c)))), ("C06",)),
            ("server_error_is_raised_as_protocol_error", lambda c: implies(
                z3.And(c.raised, Val.llen(c.gnew("sent")) == Val.llen(c.gold("sent")) + 1, z3.Not(c.gnew("transport_failed")),
                       z3.Not(V.truthy(c.old(c.old(c.a.self, "_config"), "use_jsonclass")))),
                z3.And(_has_error(_reply_value(c)), c.raises(J.ProtocolError))), ("C06",)),
            ("result_returned_unchanged", lambda c, _n=_notify: implies(
                z3.And(c.returns, z3.Not(_has_error(_reply_value(c)))),
                (V.is_none(c.ret) if _n else
                 z3.And(V.is_dict(_reply_value(c)), c.ret == get(_reply_value(c), "result")))), ("C06", "C01", "C04")),
            ("one_exchange", lambda c: z3.Or(Val.llen(c.gnew("sent")) == Val.llen(c.gold("sent")),
                                             Val.llen(c.gnew("sent")) == Val.llen(c.gold("sent")) + 1), ("C01",)),
            ("request_text_is_the_message", lambda c, _n=_notify: implies(
                Val.llen(c.gnew("sent")) == Val.llen(c.gold("sent")) + 1,
                z3.And(z3.Select(Val.tat(z3.Select(Val.lat(c.gnew("sent")), Val.llen(c.gold("sent")))), 1) == _target(c),
                       z3.Select(Val.tat(z3.Select(Val.lat(c.gnew("sent")), Val.llen(c.gold("sent")))), 2) ==
                       V.VStr(V.jdumps_of(c.gnew("last_dumped"))),
                       get(c.gnew("last_dumped"), "method") == c.a.methodname)), ("C01",)),
        ],
        modifies=[Ghost("sent"), Ghost("imports"), Ghost("constructs"), Ghost("xlate_log"), Ghost("x_kind"), Ghost("x_val"),
                  Ghost("checked_name"), Ghost("bean_attrs"), Ghost("uuid_ctr"), Ghost("last_dumped"), Ghost("transport_failed"),
                  Field(lambda c: c.old(c.a.self, _P + "history"), "requests"),
                  Field(lambda c: c.old(c.a.self, _P + "history"), "responses"), Fresh("args")],
        props=("C06", "C01"),
    )

T.declare_ghost("transport_failed", z3.BoolSort())


def list_equiv(a, b):
    """the same list: same length and the same element at every index (contents beyond the length are irrelevant)"""
    return z3.And(V.is_list(a), V.is_list(b), Val.llen(a) == Val.llen(b),
                  z3.Implies(z3.And(FJ >= 0, FJ < Val.llen(a)), z3.Select(Val.lat(a), FJ) == z3.Select(Val.lat(b), FJ)))


Contract(
    TMIX + ".__init__",
    self_class=TR,
    kinds={"config": "obj:" + CONFIG},
    requires=[("config", lambda c: valid_config(c, c.a.config))],
    ensures=[("initial_state", lambda c: z3.And(c.returns, c.new(c.a.self, STACK) == V.empty_list(),
                                                c.new(c.a.self, "_config") == c.a.config,
                                                c.new(c.a.self, "user_agent") == c.old(c.a.config, "user_agent")), ("C18", "C17"))],
    modifies=[Field(lambda c: c.a.self, f) for f in ("_config", "context", "user_agent", STACK, "accept_gzip_encoding", "verbose")],
    props=("C18",),
)


def _tstack(c, heap):
    t = c.old(c.a.self, _P + "transport")
    return (c.old if heap == "old" else c.new)(t, STACK)


Contract(
    SP + "._additional_headers",
    requires=[("proxy", _sp_inv), ("stack", lambda c: z3.And(V.is_list(_tstack(c, "old")), Val.llen(_tstack(c, "old")) >= 0))],
    ensures=[
        ("headers_in_force_restored_on_every_exit", lambda c: list_equiv(_tstack(c, "new"), _tstack(c, "old")), ("C18",)),
        ("block_exception_propagates", lambda c: z3.BoolVal(True), ("C18",)),
    ],
    modifies=[Field(lambda c: c.old(c.a.self, _P + "transport"), STACK)],
    props=("C18",),
)


def _stripped_scheme(uri):
    sch = url_scheme(uri)
    return z3.If(z3.PrefixOf(sv("unix+"), sch), z3.SubString(sch, 5, z3.Length(sch) - 5), sch)


def _is_unix(uri):
    return z3.PrefixOf(sv("unix+"), url_scheme(uri))


Contract(
    SP + ".__init__",
    kinds={"uri": "str", "config": "obj:" + CONFIG, "transport": "opt:obj:" + TR, "history": "val"},
    requires=[("config", lambda c: valid_config(c, c.a.config)),
              ("given-transport", lambda c: z3.Or(V.is_none(c.a.transport), z3.And(
                  V.is_list(c.old(c.a.transport, STACK)), Val.llen(c.old(c.a.transport, STACK)) >= 0,
                  Val.ref(c.a.transport) != Val.ref(c.a.self))))],
    ensures=[
        ("unsupported_scheme_rejected", lambda c: implies(
            z3.And(_stripped_scheme(Val.s(c.a.uri)) != sv("http"), _stripped_scheme(Val.s(c.a.uri)) != sv("https")),
            c.raises(OSError)), ("C17",)),
        ("target_host_and_query_from_the_url", lambda c: implies(c.returns, z3.And(
            c.new(c.a.self, _P + "host") == V.VStr(url_netloc(Val.s(c.a.uri))),
            c.new(c.a.self, _P + "query_string") == V.VStr(url_query(Val.s(c.a.uri))),
            c.new(c.a.self, _P + "handler") == V.VStr(z3.If(
                z3.Or(_is_unix(Val.s(c.a.uri)), z3.Length(url_path(Val.s(c.a.uri))) == 0), sv("/"), url_path(Val.s(c.a.uri)))),
            c.new(c.a.self, _P + "version") == z3.If(V.truthy(c.a.version), c.a.version, c.old(c.a.config, "version")),
            c.new(c.a.self, "_config") == c.a.config, c.new(c.a.self, _P + "history") == c.a.history)), ("C17", "C01")),
        ("constructor_headers_pushed_once", lambda c: implies(z3.And(c.returns, z3.Not(V.is_none(c.a.transport))), z3.And(
            c.new(c.a.self, _P + "transport") == c.a.transport,
            c.new(c.a.transport, STACK) == _appended(c.old(c.a.transport, STACK),
                                                    z3.If(V.truthy(c.a.headers), c.a.headers, V.empty_dict())))), ("C18",)),
        ("own_transport_gets_exactly_the_constructor_headers", lambda c: implies(z3.And(c.returns, V.is_none(c.a.transport)), z3.And(
            c.fresh_obj(c.new(c.a.self, _P + "transport")),
            c.new(c.new(c.a.self, _P + "transport"), STACK) ==
            _appended(V.empty_list(), z3.If(V.truthy(c.a.headers), c.a.headers, V.empty_dict())))), ("C18",)),
    ],
    modifies=[Field(lambda c: c.a.self, f) for f in ("_config", _P + "version", _P + "host", _P + "handler", _P + "query_string",
                                                     _P + "transport", _P + "encoding", _P + "verbose", _P + "history")] +
             [Field(lambda c: c.a.transport, STACK)] +
             [Fresh(f) for f in ("scheme", "netloc", "path", "query", "_config", "context", "user_agent", STACK,
                                 "accept_gzip_encoding", "verbose", "_connection", "_extra_headers",
                                 "_UnixTransport__unix_path", "args")],
    props=("C17", "C18"),
)


# --- response reassembly on the client (C17) --------------------------------------------------------------------------------
JT = "jsonrpclib.jsonrpc.JSONTarget"
Contract(JT + ".__init__", ensures=[("empty_buffer", lambda c: z3.And(c.returns, c.new(c.a.self, "data") == V.empty_list()), ("C17",))],
         modifies=[Field(lambda c: c.a.self, "data")], props=("C17",))
Contract(JT + ".feed",
         requires=[("buffer", lambda c: z3.And(V.is_list(c.old(c.a.self, "data")), Val.llen(c.old(c.a.self, "data")) >= 0))],
         ensures=[("raw_chunk_appended", lambda c: z3.And(
             c.returns, c.new(c.a.self, "data") == _appended(c.old(c.a.self, "data"), c.a.data)), ("C17",))],
         modifies=[Field(lambda c: c.a.self, "data")], props=("C17",))


def _chunks(c):
    return c.old(c.a.self, "data")


Contract(
    JT + ".close",
    requires=[("buffer", lambda c: z3.And(V.is_list(_chunks(c)), Val.llen(_chunks(c)) >= 0)),
              ("chunks-of-one-kind", lambda c: implies(
                  Val.llen(_chunks(c)) > 0,
                  z3.Or(z3.And(V.is_bytes(z3.Select(Val.lat(_chunks(c)), 0)), all_bytes(_chunks(c))),
                        z3.And(V.is_str(z3.Select(Val.lat(_chunks(c)), 0)), all_str(_chunks(c))))))],
    ensures=[
        ("no_chunk_is_empty_text", lambda c: implies(Val.llen(_chunks(c)) == 0, z3.And(c.returns, c.ret == V.S(""))), ("C17",)),
        ("bytes_are_decoded_once_as_a_whole", lambda c: implies(
            z3.And(Val.llen(_chunks(c)) > 0, all_bytes(_chunks(c)), V.is_bytes(z3.Select(Val.lat(_chunks(c)), 0)),
                   V.utf8_valid(bjoin_of(_chunks(c)))),
            z3.And(c.returns, c.ret == V.VStr(V.dec_utf8(bjoin_of(_chunks(c)))))), ("C17",)),
        ("undecodable_bytes_pass_through", lambda c: implies(
            z3.And(Val.llen(_chunks(c)) > 0, all_bytes(_chunks(c)), V.is_bytes(z3.Select(Val.lat(_chunks(c)), 0)),
                   z3.Not(V.utf8_valid(bjoin_of(_chunks(c))))),
            z3.And(c.returns, c.ret == V.VBytes(bjoin_of(_chunks(c))))), ("C17",)),
        ("text_chunks_are_joined", lambda c: implies(
            z3.And(Val.llen(_chunks(c)) > 0, all_str(_chunks(c)), V.is_str(z3.Select(Val.lat(_chunks(c)), 0))),
            z3.And(c.returns, c.ret == V.VStr(bjoin_of(_chunks(c))))), ("C17",)),
        ("buffer_untouched", lambda c: c.new(c.a.self, "data") == c.old(c.a.self, "data"), ("C17",)),
    ],
    modifies=[],
    props=("C17",),
)

FIELDS.declare("jsonrpclib.jsonrpc.JSONParser", "target", type=JT)
Contract("jsonrpclib.jsonrpc.JSONParser.__init__", kinds={"target": "obj:" + JT},
         ensures=[("target_stored", lambda c: z3.And(c.returns, c.new(c.a.self, "target") == c.a.target), ("C17",))],
         modifies=[Field(lambda c: c.a.self, "target")], props=("C17",))
Contract("jsonrpclib.jsonrpc.JSONParser.feed",
         requires=[("target", lambda c: (lambda t: z3.And(V.is_obj(t), Val.ref(t) >= 0, Val.ref(t) != Val.ref(c.a.self),
                                                          V.is_list(c.old(t, "data")), Val.llen(c.old(t, "data")) >= 0))(
             c.old(c.a.self, "target")))],
         ensures=[("chunk_forwarded_verbatim", lambda c: z3.And(
             c.returns, c.new(c.old(c.a.self, "target"), "data") ==
             _appended(c.old(c.old(c.a.self, "target"), "data"), c.a.data)), ("C17",))],
         modifies=[Field(lambda c: c.old(c.a.self, "target"), "data")], props=("C17",))
# the transport calls it between the last feed and the target's close(): it must leave what was fed alone (frame: nothing)
Contract("jsonrpclib.jsonrpc.JSONParser.close",
         ensures=[("does_nothing", lambda c: z3.And(c.returns, V.is_none(c.ret)), ("C17",))],
         modifies=[], props=("C17",))
Contract(TMIX + ".getparser",
         ensures=[("parser_feeds_a_fresh_target", lambda c: z3.And(
             c.returns, V.is_tuple(c.ret), Val.tlen(c.ret) == 2,
             (lambda p, t: z3.And(c.fresh_obj(p), c.fresh_obj(t), c.new(p, "target") == t,
                                  c.new(t, "data") == V.empty_list()))(z3.Select(Val.tat(c.ret), 0), z3.Select(Val.tat(c.ret), 1))),
                   ("C17",))],
         modifies=[Fresh("target"), Fresh("data")], props=("C17",))


# --- the Unix-socket transport (C17: the URL's path names the socket; C19: the cached connection is keyed by that socket) ---------
UT = "jsonrpclib.jsonrpc.UnixTransport"
UHC = "jsonrpclib.jsonrpc.UnixHTTPConnection"
_UP = "_UnixTransport__unix_path"
FIELDS.declare(UT, _UP)
FIELDS.declare(UT, "_connection")
FIELDS.declare(UHC, "path")
host_info_path = z3.Function("host_info_path", Val, Val)        # first component of xmlrpc's get_host_info(host)
host_info_headers = z3.Function("host_info_headers", Val, Val)  # second component


@TABLE.register("xmlrpc.client.Transport.get_host_info")
def _tr_get_host_info(ex, st, args, kwargs, text):
    """xmlrpc.client.Transport.get_host_info(host): a 3-tuple (host without credentials, extra headers, x509), a function
    of host; no side effect; does not raise for a str"""
    host = ex.lift(args[1])
    return [(st, ("val", V.mk_tuple([host_info_path(host), host_info_headers(host), V.VNone])))]


@TABLE.register("http.client.HTTPConnection.__init__")
def _hc_init(ex, st, args, kwargs, text):
    """http.client.HTTPConnection.__init__(host, ...): records the host; connects nothing"""
    st = st.copy()
    st.write(Val.ref(ex.lift(args[0])), "host", ex.lift(args[1]))
    return [(st, ("val", V.VNone))]


FIELDS.declare(UHC, "host")
Contract(UHC + ".__init__", kinds={"path": "val"},
         requires=[("star", lambda c: z3.And(V.is_tuple(c.a.args), Val.tlen(c.a.args) == 0, V.is_dict(c.a.kwargs), Val.dlen(c.a.kwargs) == 0))],
         ensures=[("socket_path_stored_host_is_localhost", lambda c: z3.And(
             c.returns, c.new(c.a.self, "path") == c.a.path, c.new(c.a.self, "host") == V.S("localhost")), ("C17",))],
         modifies=[Field(lambda c: c.a.self, "path"), Field(lambda c: c.a.self, "host")], props=("C17",))


def _ut_conn(c, heap="old"):
    return (c.old if heap == "old" else c.new)(c.a.self, "_connection")


def _ut_key(c):
    up = c.old(c.a.self, _UP)
    return z3.If(V.truthy(up), up, c.a.host)


def _ut_hit(c):
    return _ut_key(c) == z3.Select(Val.tat(_ut_conn(c)), 0)        # a str against None or a str: Python equality is identity of values


Contract(
    UT + ".make_connection",
    kinds={"host": "str"},
    requires=[("cache", lambda c: z3.And(V.is_tuple(_ut_conn(c)), Val.tlen(_ut_conn(c)) == 2,
                                         z3.Or(V.is_none(z3.Select(Val.tat(_ut_conn(c)), 0)), V.is_str(z3.Select(Val.tat(_ut_conn(c)), 0))),
                                         z3.Or(V.is_none(c.old(c.a.self, _UP)), V.is_str(c.old(c.a.self, _UP)))))],
    ensures=[
        ("cached_connection_reused_only_for_the_same_socket", lambda c: implies(_ut_hit(c), z3.And(
            c.returns, c.ret == z3.Select(Val.tat(_ut_conn(c)), 1), _ut_conn(c, "new") == _ut_conn(c))), ("C19", "C17")),
        ("otherwise_a_new_connection_to_the_socket_the_url_names", lambda c: implies(z3.Not(_ut_hit(c)), z3.And(
            c.returns, c.fresh_obj(c.ret), c.new(c.ret, "path") == host_info_path(_ut_key(c)),
            _ut_conn(c, "new") == tup(_ut_key(c), c.ret))), ("C19", "C17")),
    ],
    modifies=[Field(lambda c: c.a.self, "_connection"), Field(lambda c: c.a.self, "_extra_headers"), Fresh("path"), Fresh("host")],
    types={"return": UHC},
    props=("C17", "C19"),
)


# --- UnixHTTPConnection.connect: a stream socket of the Unix family, connected to the stored path ------------------------------------
import socket as _socket                                                      # noqa: E402
import pyvc.builtins_model as _B                                              # noqa: E402
SOCK = "socket.socket"
for _f in ("family", "type", "connected_to"):
    FIELDS.declare(SOCK, _f)


def _ctor_socket(ex, st, args, kwargs, text):
    """socket.socket(family, type): a new, unconnected socket object recording both; may raise OSError"""
    st = st.copy()
    s_ = st.alloc(_socket.socket)
    st.write(Val.ref(s_), "family", ex.lift(args[0]))
    st.write(Val.ref(s_), "type", ex.lift(args[1]))
    st.write(Val.ref(s_), "connected_to", V.VNone)
    s_ex = st.copy()
    s_ex.sig.append("socket:raise")
    return [(st, ("val", s_)), (s_ex, ("raise", ex.env_exc(s_ex, OSError)))]


_B._CTORS[_socket.socket] = _ctor_socket


@TABLE.register("_socket.socket.connect")
@TABLE.register("socket.socket.connect")
def _sock_connect(ex, st, args, kwargs, text):
    """socket.connect(address): the socket is connected to that address, or OSError is raised"""
    st = st.copy()
    s_ex = st.copy()
    s_ex.sig.append("connect:raise")
    st.write(Val.ref(ex.lift(args[0])), "connected_to", ex.lift(args[1]))
    return [(st, ("val", V.VNone)), (s_ex, ("raise", ex.env_exc(s_ex, OSError)))]


Contract(UHC + ".connect",
         ensures=[("stream_socket_connected_to_the_stored_path", lambda c: implies(c.returns, (lambda s_: z3.And(
             c.fresh_obj(s_), c.new(s_, "connected_to") == c.old(c.a.self, "path"),
             c.new(s_, "family") == V.I(int(_socket.AF_UNIX)), c.new(s_, "type") == V.I(int(_socket.SOCK_STREAM))))(
             c.new(c.a.self, "sock"))), ("C17", "C19")),
                  ("failure_is_an_os_error", lambda c: implies(c.raised, c.raises(OSError)), ("C19",))],
         modifies=[Field(lambda c: c.a.self, "sock"), Fresh("family"), Fresh("type"), Fresh("connected_to")], props=("C17", "C19"))
