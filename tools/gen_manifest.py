#!/usr/bin/env python3
"""Regenerates MANIFEST.json from the table below (kept in one place so the file is always valid)."""
import json, os
HERE = os.path.dirname(os.path.dirname(os.path.abspath(__file__)))
CLAIMED = {k: v for k, v in json.load(open(os.path.join(HERE, "manifest_claims.json"))).items() if not k.startswith("_")}
ALL = ["C%02d" % i for i in range(1, 21)]
BOUNDED = {"C01": "end-to-end exerciser over loopback TCP", "C02": "dispatcher corpus", "C03": "dispatcher corpus", "C04": "dispatcher corpus",
           "C05": "dispatcher corpus", "C06": "runtime contracts over an enumerated corpus", "C07": "generated class shapes",
           "C08": "class-name corpus with an import spy", "C09": "pool schedules under a deterministic scheduler",
           "C10": "pool schedules under a deterministic scheduler", "C11": "pool schedules under a deterministic scheduler",
           "C12": "lifecycle histories and concurrent clients", "C13": "dispatcher corpus",
           "C15": "plain nestings and descriptor shapes", "C16": "FutureResult schedules under a deterministic scheduler",
           "C14": "message harness on the enumerated argument space", "C17": "framing harness", "C19": "fault sequences against a scripted peer", "C18": "header-stack enumeration", "C20": "handler tables and ignore lists on generated shapes"}
checks = []
for pid in ALL:
    c = CLAIMED.get(pid)
    if not c or c.get("not_applicable"):
        continue
    checks.append({
        "property_id": pid,
        "quick_cmd": "bin/verif check %s --tier quick" % pid,
        "thorough_cmd": "bin/verif check %s --tier thorough" % pid,
        "evidence_file": "evidence/%s.json" % pid,
        "replay_cmd_template": "bin/verif replay {path}",
        "engine": "pyvc",
        "level_claimed": {"category": c.get("category", "proof"), "text": c["text"], "design_ref": c.get("design_ref", "DESIGN.md sections 4 and 10")},
        "level_note": c["note"],
        "technique": c.get("technique", "contracts on the real functions; VCs generated from the AST of /repo by pyvc; discharged by z3"
                           + ("; bounded stand-in on the real code (labelled, not counted as proved): " + BOUNDED[pid] if pid in BOUNDED else "")),
    })
na = [{"property_id": pid, "reason": (CLAIMED.get(pid) or {}).get("not_applicable", "machinery for this property is not built yet in this session (see DESIGN.md section 4 for the plan)")}
      for pid in ALL if not CLAIMED.get(pid) or CLAIMED[pid].get("not_applicable")]
m = {
    "version": 1,
    "setup_cmd": "bin/verif setup",
    "hooks": {"guard": "JSONRPCLIB_VERIF", "enable": "no instrumentation of /repo is needed: contracts are a sidecar in /verif/contracts keyed by qualified name; checks export JSONRPCLIB_VERIF=1 but no repository code reads it",
              "baseline_off_cmd": "cd /repo && /venv/bin/python -m pytest -ra -q -p no:cacheprovider --timeout=900 --continue-on-collection-errors",
              "source_commits": [], "add_only": True},
    "engines": [{"name": "pyvc", "path": "pyvc/", "serves_properties": [c["property_id"] for c in checks],
                 "kind_free_text": "self-built verification-condition generator: symbolic execution of the real function bodies (ast re-read from /repo on every run) against sidecar contracts; obligations discharged by z3 5.1 (API) with /usr/bin/z3 4.8.12 as second back end"}],
    "checks": checks,
    "notes": "exit codes of every check: 0 held, 1 VIOLATION, 2 UNDECIDED (unsupported construct / solver unknown, never reported as a violation), 3 checker fault. Known findings: known_findings.json.",
    "not_applicable": na,
}
json.dump(m, open(os.path.join(HERE, "MANIFEST.json"), "w"), indent=1)
print("checks:", len(checks), "not_applicable:", len(na))
