import sys, os, json, time
sys.path.insert(0,'/verif')
os.environ['JSONRPCLIB_VERIF']='1'
from pyvc import runner
runner.load_all()
from pyvc.contracts import REGISTRY
keys=[k for k,c in REGISTRY.items() if not getattr(c,'assumed',None)]
t=time.time()
res=runner.run_functions(keys, jobs=16)
bad=0
for r in res:
    nd=sum(1 for o in r['obligations'] if o['status']!='discharged')
    if r['status']!='ok' or nd:
        bad+=1
        print(r['function'], r['status'], r['message'][:200], 'undischarged', nd)
        for o in r['obligations']:
            if o['status']!='discharged': print('   ', o['status'], o['name'], o['sig'][-3:])
cg={r['function']: r.get('callees', []) for r in res}
if os.environ.get('VERIF_REPO','/repo')=='/repo' and bad <= 1:
    json.dump(cg, open('/verif/callgraph.json','w'), indent=0, sort_keys=True)
print(len(res),'functions', sum(len(r['obligations']) for r in res),'obligations', bad,'with problems', round(time.time()-t),'s')
