#!/bin/bash
# Takes a sub-agent's scratch worktree (uncommitted change + demo.py + meta.json), confirms the claims independently
# (demo exits 0 on /repo's HEAD and non-zero with the change; the repository's tests pass with the change), stores it as
# seeded/<id>/ and removes the worktree.   usage: tools/ingest_seed.sh <worktree> <seed-id>
wt=$1; id=$2
cd "$(dirname "$0")/.."
[ -d "$wt" ] || { echo "no worktree $wt"; exit 2; }
mkdir -p seeded/$id
git -C "$wt" diff -- jsonrpclib > seeded/$id/patch.diff
[ -s seeded/$id/patch.diff ] || { echo "$id: empty patch"; exit 2; }
cp "$wt/demo.py" seeded/$id/demo.py
cp "$wt/meta.json" seeded/$id/meta.json 2>/dev/null || echo '{}' > seeded/$id/meta.json
( cd "$wt" && timeout 120 /venv/bin/python demo.py > /tmp/ingest_$id.with 2>&1 ); with=$?
clean=$(mktemp -d /tmp/ingest_clean.XXXXXX); git -C /repo worktree add -q --detach "$clean/r" HEAD
cp "$wt/demo.py" "$clean/r/demo.py"
( cd "$clean/r" && timeout 120 /venv/bin/python demo.py > /tmp/ingest_$id.without 2>&1 ); without=$?
git -C /repo worktree remove --force "$clean/r"; rm -rf "$clean"
( cd "$wt" && timeout 900 /venv/bin/python -m pytest -q -p no:cacheprovider --timeout=300 tests 2>&1 | tail -3 > /tmp/ingest_$id.tests )
tests=$(tr '\n' ' ' < /tmp/ingest_$id.tests)
echo "$id demo_with_change=$with demo_without=$without tests: $tests"
python3 - "$id" "$with" "$without" "$tests" <<'PY'
import json,sys
i,w,wo,t=sys.argv[1:5]
p='seeded/%s/meta.json'%i
m=json.load(open(p))
m['confirmed']={'demo_exit_with_change':int(w),'demo_exit_on_unchanged_tree':int(wo),'test_suite_with_change':t.strip(),
 'ran':'demo.py in the scratch worktree and in a clean worktree of /repo HEAD; pytest tests/ in the scratch worktree'}
json.dump(m,open(p,'w'),indent=1)
PY
git -C /repo worktree remove --force "$wt"; git -C /repo worktree prune
