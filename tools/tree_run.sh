#!/bin/bash
# Run property checks against another tree (a scratch copy with some change applied), writing nothing under /verif.
# usage: tools/tree_run.sh <tree> <outfile> [property ids...]
cd "$(dirname "$0")/.."
tree=$1; out=$2; shift 2
ids="$@"; [ -z "$ids" ] && ids="C01 C02 C03 C04 C05 C06 C07 C08 C09 C10 C11 C12 C13 C14 C15 C16 C17 C18 C19 C20"
scratch=$(mktemp -d /tmp/verif_tree.XXXXXX)
: > "$out"
for p in $ids; do
  s=$(date +%s)
  VERIF_REPO=$tree VERIF_OUT=$scratch timeout 3000 bin/verif check $p > $scratch/$p.log 2>&1
  code=$?
  echo "$p exit=$code secs=$(( $(date +%s) - s )) $(grep -c '^VIOLATION' $scratch/$p.log) violation line(s)" >> "$out"
  grep -E '^(UNDECIDED|FAULT|KNOWN-FINDING)' $scratch/$p.log | cut -c1-260 | head -4 >> "$out"
  for f in $(grep '^VIOLATION' $scratch/$p.log | head -4 | sed 's/.*replay=//; s/ .*//'); do
    python3 -c "import json; d=json.load(open('$f')); print('   ', d.get('obligation'), d.get('solver',{}).get('backend'), 'confirmed=%s' % (d.get('counterexample') or {}).get('confirmed'))" >> "$out" 2>/dev/null
  done
done
rm -rf "$scratch"
