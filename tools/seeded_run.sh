#!/bin/bash
# Validation of the checks against the seeded changes in /verif/seeded: each patch is applied to a scratch worktree of
# /repo's HEAD (never to /repo), the property's check is pointed at it (VERIF_REPO), outputs go to a scratch directory
# (VERIF_OUT), and the worktree is removed.  usage: tools/seeded_run.sh [tier] <seed-id>...   (default: all, quick)
cd "$(dirname "$0")/.."
tier=quick
if [ "$1" = quick ] || [ "$1" = thorough ]; then tier=$1; shift; fi
ids="$@"; [ -z "$ids" ] && ids=$(ls seeded)
base=$(mktemp -d /tmp/verif_seeded.XXXXXX)
mkdir -p seeded_results
for id in $ids; do
  prop=${id%%_*}
  wt=$base/$id
  git -C /repo worktree add -q --detach "$wt" HEAD || continue
  if ! git -C "$wt" apply /verif/seeded/$id/patch.diff; then echo "$id: patch does not apply"; git -C /repo worktree remove --force "$wt"; continue; fi
  s=$(date +%s)
  VERIF_REPO=$wt VERIF_OUT=$base/out_$id timeout 3000 bin/verif check $prop --tier $tier > $base/$id.log 2>&1
  code=$?
  nv=$(grep -c '^VIOLATION' $base/$id.log)
  first=$(grep '^VIOLATION' $base/$id.log | head -1 | sed 's/.*replay=//; s/ .*//')
  ob=""; [ -n "$first" ] && ob=$(python3 -c "import json,sys; print(json.load(open('$first')).get('obligation'))" 2>/dev/null)
  conf=$(grep '^VIOLATION' $base/$id.log | grep -vc 'no-failing-input-found')
  echo "$id property=$prop exit=$code violations=$nv with_replayed_input=$conf first_obligation=$ob secs=$(( $(date +%s) - s ))" | tee seeded_results/$id.txt
  grep -E '^(UNDECIDED|FAULT)' $base/$id.log | head -3 >> seeded_results/$id.txt
  git -C /repo worktree remove --force "$wt"
done
rm -rf "$base"
git -C /repo worktree prune
