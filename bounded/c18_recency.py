"""C18: header merge by recency, decided by enumeration of the property's own finite space on the real
TransportMixIn.emit_additional_headers / send_content (bounded; the recency clause is not proved)."""
import itertools
import random

NAMES = ["X-A", "x-a", "X-a", "Content-Length", "content-type", "User-Agent", "user-agent", "Accept-Encoding", "Authorization"]
VALUES = [1, "v", None, 0, 2.5, True, ""]        # string and non-string values, falsy ones included
READONLY = ("content-length", "content-type")


class Conn(object):
    def __init__(self):
        self.headers = []
        self.ended = False
        self.body = None

    def putheader(self, k, v):
        self.headers.append((k, v))

    def endheaders(self):
        self.ended = True

    def send(self, b):
        self.body = b


def expected(stack, extra):
    """Appendix F: for every lower-cased name that is not read-only, str() of the value from the most recently pushed
    dictionary defining it (case-insensitively); within one dictionary any of its case variants is admissible."""
    names = {}
    for d in [dict(extra)] + list(stack):
        per = {}
        for k, v in d.items():
            per.setdefault(str(k).lower(), set()).add(str(v))
        for n, vals in per.items():
            names[n] = vals              # later dictionaries supersede earlier ones
    for r in READONLY:
        names.pop(r, None)
    return names


def dicts():
    out = [{}]
    for n in NAMES:
        for v in VALUES:
            out.append({n: v})
    for a, b in itertools.combinations(NAMES, 2):
        for va in (1, None):
            out.append({a: va, b: "w"})
    return out


def restoration(J, failures):
    """leaving an _additional_headers block, normally or through an exception, puts back exactly the headers that were in
    force before it - also when the block's dictionary equals one that is already on the stack (an empty one, the
    constructor's, the enclosing block's)"""
    n = 0
    small = [{}, {"X-A": "1"}, {"X-A": "2"}, {"X-B": "1"}, {"x-a": "1"}, {"X-A": "1", "X-B": "1"}]

    def snap(t):
        return [dict(d) for d in t.additional_headers]

    for h0 in (None, {}, {"X-A": "1"}, {"X-B": "1"}):
        for outer in small:
            for inner in small:
                for how in ("normal", "exception-caught-between", "exception-through-both"):
                    n += 1
                    where = {"constructor": h0, "outer": outer, "inner": inner, "exit": how}
                    try:
                        p = J.ServerProxy("http://127.0.0.1:1/x", headers=None if h0 is None else dict(h0))
                        t = p._ServerProxy__transport
                        s0 = snap(t)
                        try:
                            with p._additional_headers(dict(outer)):
                                s1 = snap(t)
                                try:
                                    with p._additional_headers(dict(inner)):
                                        if how != "normal":
                                            raise KeyError("block fails")
                                except KeyError:
                                    if how == "exception-through-both":
                                        raise
                                if snap(t) != s1:
                                    failures.append({"name": "jsonrpclib.jsonrpc.ServerProxy._additional_headers/bounded[restoration]",
                                                     "input": where, "observed": "after the inner block %r, before it %r" % (snap(t), s1)})
                        except KeyError:
                            pass
                        if snap(t) != s0:
                            failures.append({"name": "jsonrpclib.jsonrpc.ServerProxy._additional_headers/bounded[restoration]",
                                             "input": where, "observed": "after the blocks %r, before them %r" % (snap(t), s0)})
                    except Exception as e:      # noqa
                        failures.append({"name": "jsonrpclib.jsonrpc.ServerProxy._additional_headers/bounded[restoration]",
                                         "input": where, "observed": "raised %s: %s" % (type(e).__name__, e)})
    return n


def run(tier="quick", seed=0):
    import jsonrpclib.jsonrpc as J
    import jsonrpclib.config as C
    rng = random.Random(seed)
    ds = dicts()
    stacks = [()] + [(d,) for d in ds] + list(itertools.product(ds, repeat=2))
    triples = list(itertools.product(ds[:40], repeat=3))
    rng.shuffle(triples)
    stacks += triples[: (3000 if tier == "quick" else 40000)]
    failures, n = [], 0
    n += restoration(J, failures)
    for stack in stacks:
        for extra in ([], [("Authorization", "Basic x")], [("X-A", "auth")]):
            t = J.TransportMixIn(C.Config(user_agent="UA"))
            t._extra_headers = list(extra)
            for d in stack:
                t.push_headers(dict(d))
            conn = Conn()
            n += 1
            try:
                ret = t.emit_additional_headers(conn)
            except Exception as e:          # noqa
                failures.append({"name": "jsonrpclib.jsonrpc.TransportMixIn.emit_additional_headers/bounded[recency]",
                                 "input": {"stack": [dict(d) for d in stack], "extra": extra},
                                 "observed": "raised %s: %s" % (type(e).__name__, e)})
                continue
            exp = expected(stack, extra)
            got = dict(conn.headers)
            ok = (set(got) == set(exp) and all(got[k] in exp[k] for k in got) and len(conn.headers) == len(got)
                  and dict(ret) == got)
            if not ok:
                failures.append({"name": "jsonrpclib.jsonrpc.TransportMixIn.emit_additional_headers/bounded[recency]",
                                 "input": {"stack": [dict(d) for d in stack], "extra": extra},
                                 "observed": "emitted %r, expected one of %r" % (conn.headers, {k: sorted(v) for k, v in exp.items()})})
                if len(failures) > 20:
                    break
            # send_content: fixed headers first, User-Agent rule
            conn2 = Conn()
            t.send_content(conn2, "{}")
            h = conn2.headers
            ua = [v for k, v in h if k.lower() == "user-agent"]
            want_ua = list(exp["user-agent"])[0] if "user-agent" in exp and len(exp["user-agent"]) == 1 else None
            ok2 = (h[0] == ("Content-Type", "application/json-rpc") and h[1] == ("Content-Length", "2") and len(ua) == 1
                   and (ua[0] == "UA" if "user-agent" not in exp else ua[0] in exp["user-agent"])
                   and sum(1 for k, _ in h if k.lower() == "content-length") == 1
                   and sum(1 for k, _ in h if k.lower() == "content-type") == 1)
            if not ok2:
                failures.append({"name": "jsonrpclib.jsonrpc.TransportMixIn.send_content/bounded[fixed_headers_and_user_agent]",
                                 "input": {"stack": [dict(d) for d in stack], "extra": extra}, "observed": "headers %r" % (h,)})
        if len(failures) > 20:
            break
    return {"kind": "exhaustive enumeration of header stacks on the real emit_additional_headers/send_content (bounded)",
            "bound": "all stacks of 0-2 dictionaries (each with at most two of the names %r, str, int, float, bool and None values) and %d sampled "
                     "stacks of 3, each with three variants of the inherited extra headers; restoration: 4 constructor headers x 6 x 6 nested blocks "
                     "(equal dictionaries included) x 3 ways of leaving" % (NAMES, 3000 if tier == "quick" else 40000),
            "evaluations": n, "failures": failures}
