"""C17: framing on the real code (bounded): CGI reply, HTTP server reply and body reassembly, client Content-Length,
request target, scheme rejection, client-side reassembly of split and gzip-encoded responses."""
import gzip
import io
import json
import logging
import random
import socket
import sys
import threading

TEXTS = ["", "x", "é", "中文", "\U0001F600", "a" * 1023 + "é", "é" * 700, "é" * 1024 + "tail", "line\nbreak", "\\u00e9"]


def _fail(failures, clause, inp, obs):
    failures.append({"name": "jsonrpclib/bounded[%s]" % clause, "input": inp, "observed": obs})


def run(tier="quick", seed=0):
    logging.disable(logging.CRITICAL)
    import jsonrpclib
    import jsonrpclib.config as C
    import jsonrpclib.jsonrpc as J
    from jsonrpclib.SimpleJSONRPCServer import CGIJSONRPCRequestHandler, SimpleJSONRPCServer
    rng = random.Random(seed)
    failures, n = [], 0
    # (a) CGI
    for ctype in ("application/json-rpc", "application/json; charset=utf-8"):
        cfg = C.Config(content_type=ctype)
        h = CGIJSONRPCRequestHandler(config=cfg)
        h.register_function(lambda x: x, "echo")
        for t in TEXTS:
            n += 1
            req = json.dumps({"jsonrpc": "2.0", "id": 1, "method": "echo", "params": [t]}, ensure_ascii=False)
            raw = io.BytesIO()
            old = sys.stdout
            wrapper = io.TextIOWrapper(raw, encoding="utf-8", newline="\n", write_through=True)
            sys.stdout = wrapper
            try:
                h.handle_jsonrpc(req)
                wrapper.flush()
                data = raw.getvalue()
            except Exception as e:     # noqa
                sys.stdout = old
                _fail(failures, "cgi_reply_declares_byte_length", {"text": t[:30], "content_type": ctype}, "raised %s: %s" % (type(e).__name__, e))
                continue
            finally:
                sys.stdout = old
                wrapper.detach()
            head, sep, body = data.partition(b"\n\n")
            hdrs = dict(line.split(b": ", 1) for line in head.split(b"\n") if b": " in line)
            if not sep or int(hdrs.get(b"Content-Length", b"-1")) != len(body):
                _fail(failures, "cgi_reply_declares_byte_length", {"text": t[:30], "chars": len(t)},
                      "Content-Length %s, body of %d bytes" % (hdrs.get(b"Content-Length"), len(body)))
            if hdrs.get(b"Content-Type") != ctype.encode():
                _fail(failures, "cgi_reply_declares_content_type", {"content_type": ctype}, "Content-Type %r" % hdrs.get(b"Content-Type"))
            try:
                if json.loads(body.decode("utf-8")).get("result") != t:
                    _fail(failures, "cgi_reply_declares_byte_length", {"text": t[:30]}, "body does not carry the result")
            except Exception as e:     # noqa
                _fail(failures, "cgi_reply_declares_byte_length", {"text": t[:30]}, "body is not the JSON reply: %s" % e)
    # (b) HTTP server: reply framing, request bodies split into several sends, body beyond the server's read size
    cfg = C.Config(content_type="application/json-rpc")
    srv = SimpleJSONRPCServer(("127.0.0.1", 0), logRequests=False, config=cfg)
    srv.register_function(lambda x: x, "echo")
    srv.register_function(lambda x: len(x), "length")
    th = threading.Thread(target=srv.serve_forever, kwargs={"poll_interval": 0.05})
    th.daemon = True
    th.start()
    try:
        port = srv.server_address[1]
        # a two-byte character whose bytes sit on either side of the server's 10 MiB read boundary
        prefix = len(json.dumps({"jsonrpc": "2.0", "id": 7, "method": "length", "params": [""]}).encode("utf-8")) - 3
        big = "a" * (10 * 1024 * 1024 - prefix - 1) + "é" * 3 + "tail"
        cases = [(t, "echo") for t in TEXTS] + ([(big, "length")] if True else [])
        for t, meth in cases:
            body = json.dumps({"jsonrpc": "2.0", "id": 7, "method": meth, "params": [t]}, ensure_ascii=False).encode("utf-8")
            for nsplit in ((1, 3) if len(body) < 10 ** 6 else (2,)):
                n += 1
                cuts = sorted(rng.sample(range(1, max(2, len(body))), min(nsplit - 1, max(0, len(body) - 1)))) if nsplit > 1 else []
                pieces = [body[i:j] for i, j in zip([0] + cuts, cuts + [len(body)])]
                desc = {"chars": len(t), "text": t[:20], "sends": len(pieces)}
                try:
                    s = socket.create_connection(("127.0.0.1", port), timeout=30)
                    s.sendall(("POST / HTTP/1.0\r\nContent-Type: application/json\r\nContent-Length: %d\r\n\r\n" % len(body)).encode())
                    for p in pieces:
                        s.sendall(p)
                    buf = b""
                    while True:
                        d = s.recv(65536)
                        if not d:
                            break
                        buf += d
                    s.close()
                except Exception as e:     # noqa
                    _fail(failures, "server_reassembles_body", desc, "exchange failed: %s: %s" % (type(e).__name__, e))
                    continue
                head, _, rbody = buf.partition(b"\r\n\r\n")
                lines = head.split(b"\r\n")
                hdrs = dict((k.lower(), v) for k, v in (l.split(b": ", 1) for l in lines[1:] if b": " in l))
                if b" 200 " not in lines[0] + b" ":
                    _fail(failures, "server_reassembles_body", desc, "status line %r" % lines[0])
                    continue
                if int(hdrs.get(b"content-length", b"-1")) != len(rbody):
                    _fail(failures, "server_reply_declares_byte_length", desc, "Content-length %s, body of %d bytes" % (hdrs.get(b"content-length"), len(rbody)))
                if hdrs.get(b"content-type") != b"application/json-rpc":
                    _fail(failures, "server_reply_declares_content_type", desc, "Content-type %r" % hdrs.get(b"content-type"))
                try:
                    res = json.loads(rbody.decode("utf-8")).get("result")
                    if res != (t if meth == "echo" else len(t)):
                        _fail(failures, "server_reassembles_body", desc, "the method did not receive the text that was sent")
                except Exception as e:     # noqa
                    _fail(failures, "server_reassembles_body", desc, "reply is not JSON: %s" % e)
    finally:
        srv.shutdown()
        srv.server_close()
    # (c) client: Content-Length of the request is the byte length of what is sent
    class Conn(object):
        def __init__(self):
            self.headers, self.body = [], None

        def putheader(self, k, v):
            self.headers.append((k, v))

        def endheaders(self, body=None):
            self.body = body or b""

        def send(self, data):
            self.body = (self.body or b"") + data
    tr = J.Transport(C.Config())
    for t in TEXTS:
        n += 1
        c = Conn()
        tr.send_content(c, json.dumps({"p": t}, ensure_ascii=False))
        cl = [v for k, v in c.headers if k.lower() == "content-length"]
        if len(cl) != 1 or int(cl[0]) != len(c.body) or not isinstance(c.body, bytes):
            _fail(failures, "client_request_declares_byte_length", {"text": t[:20], "chars": len(t)},
                  "Content-Length %r, body of %d bytes" % (cl, len(c.body or b"")))
        if ("Content-Type", C.Config().content_type) not in c.headers:
            _fail(failures, "client_request_declares_content_type", {}, "headers %r" % (c.headers,))
    # (d) request target and (e) schemes
    seen = []

    class Rec(J.Transport):
        def request(self, host, handler, request_body, verbose=0):
            seen.append((host, handler))
            return '{"jsonrpc": "2.0", "id": 1, "result": null}'
    targets = [("http://h:1", "/"), ("http://h:1/", "/"), ("http://h:1/a/b", "/a/b"), ("http://h:1/a?x=1&y=%20z", "/a?x=1&y=%20z"),
               ("http://h:1?q=1", "/?q=1"), ("https://h/rpc%2Fx?a=b", "/rpc%2Fx?a=b"), ("unix+http://%2Ftmp%2Fs.sock", "/"),
               ("unix+http://%2Ftmp%2Fs.sock?k=v", "/?k=v"), ("http://h/p?", "/p"),
               ("http://h/api:v1/x@y", "/api:v1/x@y"), ("http://h/a+b,c=d/(e)", "/a+b,c=d/(e)"), ("http://h/~user/$x!*'", "/~user/$x!*'"),
               ("http://h/%7Euser/%41", "/%7Euser/%41"), ("http://h/a//b/./c", "/a//b/./c"), ("http://user:pw@h:8/p/q?x=%3D&y", "/p/q?x=%3D&y")]
    for url, want in targets:
        n += 1
        del seen[:]
        try:
            p = jsonrpclib.ServerProxy(url, transport=Rec(C.Config()))
            p.m()
            if not seen or seen[0][1] != want:
                _fail(failures, "request_target_is_path_plus_query", {"url": url}, "target %r, expected %r" % (seen and seen[0][1], want))
        except Exception as e:     # noqa
            _fail(failures, "request_target_is_path_plus_query", {"url": url}, "raised %s: %s" % (type(e).__name__, e))
    for url in ("ftp://h/x", "ws://h", "file:///tmp/x", "h:1/x", "", "gopher://h"):
        n += 1
        try:
            jsonrpclib.ServerProxy(url)
            _fail(failures, "unsupported_scheme_rejected", {"url": url}, "a proxy was built")
        except (IOError, OSError, ValueError):
            pass
        except Exception as e:     # noqa
            _fail(failures, "unsupported_scheme_rejected", {"url": url}, "raised %s" % type(e).__name__)
    # (f) client: reassembly of responses split into arbitrary reads, identity and gzip
    class Resp(object):
        def __init__(self, data, sizes, enc=None):
            self.data, self.sizes, self.enc = data, list(sizes), enc

        def getheader(self, name, default=None):
            if name.lower() == "content-encoding":
                return self.enc or default
            return default

        def read(self, amt=None):
            if not self.data:
                return b""
            if amt is None:
                out, self.data = self.data, b""
                return out
            k = self.sizes.pop(0) if self.sizes else (amt or len(self.data))
            k = max(1, min(k, amt or k))
            out, self.data = self.data[:k], self.data[k:]
            return out

        def close(self):
            pass
    for t in TEXTS + ["é" * 5000]:
        text = json.dumps({"jsonrpc": "2.0", "id": 1, "result": t}, ensure_ascii=False)
        raw = text.encode("utf-8")
        for enc in (None, "gzip"):
            data = gzip.compress(raw) if enc else raw
            for trial in range(3 if tier == "quick" else 25):
                n += 1
                sizes = [rng.choice([1, 2, 3, 5, 1023, 1024]) for _ in range(len(data))]
                try:
                    got = J.Transport(C.Config()).parse_response(Resp(data, sizes, enc))
                except Exception as e:     # noqa
                    _fail(failures, "client_reassembles_response", {"text": t[:20], "chars": len(t), "encoding": enc or "identity"},
                          "raised %s: %s" % (type(e).__name__, e))
                    break
                if got != text:
                    _fail(failures, "client_reassembles_response", {"text": t[:20], "chars": len(t), "encoding": enc or "identity"},
                          "decoded text differs from the decoding of the whole")
                    break
    return {"kind": "framing on the real code: CGI, HTTP server, client request, targets, schemes, split and gzip responses (bounded)",
            "bound": "%d texts (ASCII, 2-4 byte characters, 1 KiB boundary, one body beyond the server's 10 MiB read size), request bodies "
                     "sent in 1-3 pieces, responses read in random pieces of 1..1024 bytes, 9 URLs, 6 unsupported schemes" % len(TEXTS),
            "evaluations": n, "failures": failures[:40], "failures_total": len(failures)}
