"""C19: sequences of transport faults on one real ServerProxy against a scripted raw-socket peer (bounded).

The peer answers the k-th request it sees according to the k-th letter of a script over the statement's fault alphabet;
"refuse" is played by closing the listening socket for the duration of one call.  After the scripted faults only
healthy exchanges follow.  Checked for every call: it returns the result of its own request (each request carries a
unique value) or raises; a non-200 reply raises TransportError carrying the URL and the status; once faults have
stopped at most one further call fails; no call blocks (socket time-out as a watchdog)."""
import itertools
import json
import logging
import random
import socket
import struct
import threading

ALPHABET = ["ok-keep", "ok-close", "refuse", "close-before-reply", "reset", "404-with-length", "500-without-length-then-close",
            "503-bodiless", "204-no-content-keep-alive", "304-not-modified-keep-alive", "502-no-length-left-open", "truncated-body",
            "empty-200", "non-json-200", "chunked-200-cut-before-last-chunk"]


class Peer(object):
    def __init__(self, unix_path=None):
        self.unix_path = unix_path
        self.port = None
        self.script = []
        self.applied = []            # (value carried by the request, letter applied to it), in the order requests arrived
        self.lock = threading.Lock()
        self.stop = False
        self.lsock = None
        self.listen()
        self.thread = threading.Thread(target=self.loop)
        self.thread.daemon = True
        self.thread.start()

    def listen(self):
        if self.unix_path:
            import os
            if os.path.exists(self.unix_path):
                os.unlink(self.unix_path)
            s = socket.socket(socket.AF_UNIX, socket.SOCK_STREAM)
            s.bind(self.unix_path)
        else:
            s = socket.socket(socket.AF_INET, socket.SOCK_STREAM)
            s.setsockopt(socket.SOL_SOCKET, socket.SO_REUSEADDR, 1)
            s.bind(("127.0.0.1", self.port or 0))
            self.port = s.getsockname()[1]
        s.listen(8)
        s.settimeout(0.05)
        self.lsock = s

    def unlisten(self):
        with self.lock:
            if self.lsock is not None:
                self.lsock.close()
                self.lsock = None
                if self.unix_path:
                    import os
                    try:
                        os.unlink(self.unix_path)
                    except OSError:
                        pass

    def relisten(self):
        with self.lock:
            if self.lsock is None:
                self.listen()

    def next_letter(self):
        with self.lock:
            while self.script and self.script[0] == "refuse":
                self.script.pop(0)          # a refusal applies to a connection attempt, not to a request that got through
            return self.script.pop(0) if self.script else "ok-keep"

    def loop(self):
        while not self.stop:
            with self.lock:
                ls = self.lsock
            if ls is None:
                threading.Event().wait(0.01)
                continue
            try:
                conn, _ = ls.accept()
            except (socket.timeout, OSError):
                continue
            # one thread per connection: a connection the peer keeps open must not delay the next one
            t = threading.Thread(target=self.serve_and_close, args=(conn,))
            t.daemon = True
            t.start()

    def serve_and_close(self, conn):
        try:
            self.serve(conn)
        except Exception:      # noqa
            pass
        finally:
            try:
                conn.close()
            except OSError:
                pass

    def serve(self, conn):
        conn.settimeout(0.5)
        buf = b""
        while not self.stop:
            while b"\r\n\r\n" not in buf:
                try:
                    d = conn.recv(65536)
                except socket.timeout:
                    with self.lock:
                        if self.lsock is None:
                            return
                    continue
                if not d:
                    return
                buf += d
            head, _, rest = buf.partition(b"\r\n\r\n")
            length = 0
            for line in head.split(b"\r\n")[1:]:
                if line.lower().startswith(b"content-length:"):
                    length = int(line.split(b":", 1)[1])
            while len(rest) < length:
                d = conn.recv(65536)
                if not d:
                    return
                rest += d
            body, buf = rest[:length], rest[length:]
            value = None
            try:
                req = json.loads(body.decode("utf-8"))
                value = (req.get("params") or [None])[0]
                reply = json.dumps({"jsonrpc": "2.0", "id": req.get("id"), "result": value}).encode()
            except Exception:      # noqa
                reply = b"{}"
            letter = self.next_letter()
            self.applied.append((value, letter))

            def send(status, payload, length_header=True, extra=b""):
                h = b"HTTP/1.1 " + status + b"\r\nContent-Type: application/json\r\n" + extra
                if length_header is True:
                    h += b"Content-Length: " + str(len(payload)).encode() + b"\r\n"
                elif length_header:
                    h += b"Content-Length: " + str(length_header).encode() + b"\r\n"
                conn.sendall(h + b"\r\n" + payload)
            if letter == "ok-keep":
                send(b"200 OK", reply)
            elif letter == "ok-close":
                send(b"200 OK", reply, extra=b"Connection: close\r\n")
                return
            elif letter == "close-before-reply":
                return
            elif letter == "reset":
                try:
                    conn.setsockopt(socket.SOL_SOCKET, socket.SO_LINGER, struct.pack("ii", 1, 0))
                except OSError:
                    pass            # no linger option on a Unix socket: an abrupt close
                return
            elif letter == "404-with-length":
                send(b"404 Not Found", b"nope")
            elif letter == "500-without-length-then-close":
                send(b"500 Internal Server Error", b"boom", length_header=False)
                return
            elif letter == "503-bodiless":
                send(b"503 Service Unavailable", b"", length_header=True)
            elif letter == "204-no-content-keep-alive":
                conn.sendall(b"HTTP/1.1 204 No Content\r\n\r\n")
            elif letter == "304-not-modified-keep-alive":
                conn.sendall(b"HTTP/1.1 304 Not Modified\r\nETag: \"x\"\r\n\r\n")
            elif letter == "502-no-length-left-open":
                send(b"502 Bad Gateway", b"", length_header=False)
                # the connection stays open until the client gives up on it
                conn.settimeout(1.6)
                try:
                    while conn.recv(65536):
                        pass
                except (socket.timeout, OSError):
                    pass
                return
            elif letter == "truncated-body":
                send(b"200 OK", reply[:10], length_header=len(reply) + 40)
                return
            elif letter == "empty-200":
                send(b"200 OK", b"")
            elif letter == "non-json-200":
                send(b"200 OK", b"<html>not json</html>")
            elif letter == "chunked-200-cut-before-last-chunk":
                # the whole reply text arrives (padded to the client's 1024-byte read size), the terminating chunk never does:
                # the client has been fed a complete JSON text when its read fails
                padded = reply + b" " * (-len(reply) % 1024)
                conn.sendall(b"HTTP/1.1 200 OK\r\nContent-Type: application/json\r\nTransfer-Encoding: chunked\r\n\r\n" +
                             hex(len(padded))[2:].encode() + b"\r\n" + padded + b"\r\n")
                return


def run(tier="quick", seed=0):
    logging.disable(logging.CRITICAL)
    import jsonrpclib
    from jsonrpclib.jsonrpc import TransportError
    rng = random.Random(seed)
    old_timeout = socket.getdefaulttimeout()
    socket.setdefaulttimeout(1.0)
    import os
    import shutil
    import tempfile
    sockdir = tempfile.mkdtemp(prefix="verif_c19_")
    families = ["tcp"] + (["unix"] if hasattr(socket, "AF_UNIX") else [])
    failures, n = [], 0
    counter = [0]
    for family in families:
        socket.setdefaulttimeout(1.0)
        peer = Peer(os.path.join(sockdir, "peer.sock") if family == "unix" else None)
        url = ("unix+http://./%s" % peer.unix_path) if family == "unix" else "http://127.0.0.1:%d/rpc" % peer.port
        host_mark = "./" if family == "unix" else "127.0.0.1"      # unix+http://./<socket path>: the host is ".", the target "/"
        seqs = [(a,) for a in ALPHABET] + list(itertools.product(ALPHABET, repeat=2))
        more = list(itertools.product(ALPHABET, repeat=3))
        rng.shuffle(more)
        if family == "tcp" or tier != "quick":
            seqs += more[: (60 if tier == "quick" else 1728)]
        try:
            for seq in seqs:
                n += 1
                proxy = jsonrpclib.ServerProxy(url)
                with peer.lock:
                    peer.script = list(seq)
                    peer.applied = []
                failed_after_faults = 0
                healthy_done = 0
                problems = []
                calls = 0
                while healthy_done < 3 and calls < 12:
                    calls += 1
                    counter[0] += 1
                    value = "v%d" % counter[0]
                    with peer.lock:
                        refuse = bool(peer.script) and peer.script[0] == "refuse"
                        if refuse:
                            peer.script.pop(0)
                        faults_over = not peer.script
                    if refuse:
                        peer.unlisten()
                        try:
                            proxy("close")()      # a refused connection is a new connection attempt
                        except Exception:      # noqa
                            pass
                    try:
                        got = proxy.echo(value)
                        outcome = ("value", got)
                    except TransportError as e:
                        outcome = ("transport-error", e)
                    except socket.timeout as e:
                        outcome = ("blocked", e)
                    except Exception as e:      # noqa
                        outcome = ("raised", e)
                    finally:
                        if refuse:
                            peer.relisten()
                    with peer.lock:
                        mine = [l for v, l in peer.applied if v == value]
                    last = "refuse" if refuse and not mine else (mine[-1] if mine else "nothing reached the peer")
                    label = "call %d (%s)" % (calls, "; ".join((["refuse"] if refuse else []) + mine) or last)
                    if outcome[0] == "blocked":
                        problems.append("%s neither returned nor failed within the time-out" % label)
                    if outcome[0] == "value" and outcome[1] != value:
                        problems.append("%s returned %r, the result of another request (own value %r)" % (label, outcome[1], value))
                    if outcome[0] == "value" and last not in ("ok-keep", "ok-close"):
                        problems.append("%s returned a value although its request was not answered healthily" % label)
                    # a reply the client got to read: TransportError with the URL and that status.  (A reply sent to a request
                    # whose predecessor left an unread response behind is never read: the call fails earlier, which is allowed -
                    # "returns its own result or raises".)
                    if outcome[0] == "transport-error":
                        e = outcome[1]
                        statuses = [int(l[:3]) for l in mine if l[:3].isdigit()]
                        if getattr(e, "errcode", None) not in statuses or host_mark not in str(getattr(e, "url", "")):
                            problems.append("%s: TransportError carries url %r and status %r" % (label, getattr(e, "url", None), getattr(e, "errcode", None)))
                    elif last[:3].isdigit() and outcome[0] == "value":
                        problems.append("%s returned although the reply was not a 200" % label)
                    elif last[:3].isdigit() and len(mine) == 1 and calls == 1:
                        problems.append("%s: a non-200 reply on a fresh connection must raise TransportError, got %s" % (label, outcome[0]))
                    if faults_over and not refuse:
                        if outcome[0] == "value":
                            healthy_done += 1
                        elif not mine or all(l in ("ok-keep", "ok-close") for l in mine):
                            failed_after_faults += 1
                if failed_after_faults > 1:
                    problems.append("%d calls failed after the faults had stopped" % failed_after_faults)
                try:
                    proxy("close")()
                except Exception:      # noqa
                    pass
                for p in problems[:2]:
                    failures.append({"name": "jsonrpclib.jsonrpc.ServerProxy/bounded[faults_are_contained]", "input": {"faults": list(seq), "transport": family}, "observed": p})
        finally:
            peer.stop = True
            peer.unlisten()
            socket.setdefaulttimeout(old_timeout)
    shutil.rmtree(sockdir, ignore_errors=True)
    return {"kind": "fault sequences on one real ServerProxy against a scripted raw-socket peer over loopback TCP and over a Unix socket (bounded)",
            "bound": "all sequences of 1 and 2 faults and %d sampled sequences of 3 over %d letters, each followed by three healthy "
                     "exchanges; 1 s socket time-out as watchdog (the peer holds an undelimited reply open for 1.6 s)" % (60 if tier == "quick" else 1728, len(ALPHABET)),
            "evaluations": n, "failures": failures[:40], "failures_total": len(failures)}
