"""C09, C10, C11: small client programs on the real ThreadPool under a deterministic scheduler (bounded).

The real `jsonrpclib.threadpool` code runs in real threads, but its `threading` and `queue` modules are replaced, for
the duration of one run, by deterministic look-alikes whose every operation is a scheduling point: Thread, Event,
Lock, RLock and a FIFO Queue (put / get with time-outs / task_done / join / qsize / unfinished_tasks /
all_tasks_done).  Exactly one thread runs at a time; a blocking operation parks its thread until its condition holds;
time is virtual: when nobody can run, the earliest pending time-out fires ("idle-timeout expiry at a quiescent
moment").  Every schedule with at most `bound` pre-emptions is enumerated depth first.

Checked on every schedule of every client program:
* no deadlock, no lost task: the program terminates (a task that was accepted while the pool was running, and whose
  result the program waits for, is executed even when it depends on another queued task: C10 progress);
* every task runs at most once, exactly once when the program waited for it; its future yields the very object
  returned / raises the very exception raised (C09);
* at most max_threads tasks execute at the same time (C10); with one worker, tasks start in submission order (C09);
* join() == True only when every task accepted before it has finished (C11); stop() returns, afterwards no worker is
  alive and nothing runs until a restart (C09, C11); the pool can be restarted.
These are what the statements say about safety and bounded progress; they are decided only for the programs, pool
sizes and pre-emption bound listed in `bound`."""
import collections
import logging
import queue as real_queue
import threading
import types


class Abort(BaseException):
    pass


class Sched(object):
    def __init__(self, prefix, bound, step_limit=4000):
        self.prefix, self.bound, self.step_limit = list(prefix), bound, step_limit
        self.cv = threading.Condition()
        self.turn = None
        self.state = {}              # tid -> ("ready",) | ("running",) | ("blocked", pred, deadline) | ("done",) | ("new",)
        self.reason = {}
        self.trace, self.labels = [], []
        self.preemptions = 0
        self.now = 0.0
        self.ids = {}                # real thread -> tid
        self.objs = {}               # tid -> SThread object (None for the client)
        self.finished = threading.Event()
        self.aborted = False
        self.error = None
        self.next_tid = 0

    # -- identity
    def me(self):
        return self.ids.get(threading.current_thread())

    # -- decisions
    def _runnable(self):
        out = []
        for t in sorted(self.state):
            s = self.state[t]
            if s[0] == "ready" or (s[0] == "blocked" and s[1]()):
                out.append(t)
        return out

    def _pick(self, me):
        if len(self.trace) > self.step_limit:
            self.error = self.error or "no termination within %d scheduling steps" % self.step_limit
            return None
        runnable = self._runnable()
        if runnable:
            if me in runnable:
                options = [me] + [t for t in runnable if t != me]
                if self.preemptions >= self.bound:
                    options = [me]
            else:
                options = runnable
            k = len(self.trace)
            idx = self.prefix[k] if k < len(self.prefix) else 0
            if idx >= len(options):
                idx = 0
            if me in runnable and idx != 0:
                self.preemptions += 1
            self.trace.append((idx, len(options)))
            nxt = options[idx]
            if self.state[nxt][0] == "blocked":
                self.reason[nxt] = True
            return nxt
        timed = [(s[2], t) for t, s in self.state.items() if s[0] == "blocked" and s[2] is not None]
        if timed:
            deadline, t = min(timed)
            self.now = max(self.now, deadline)
            self.reason[t] = False
            self.labels.append((t, "time-out fires"))
            return t
        if any(s[0] != "done" for s in self.state.values()):
            waiting = ["T%d" % t for t, s in sorted(self.state.items()) if s[0] == "blocked"]
            self.error = self.error or "deadlock: %s wait for ever" % ", ".join(waiting)
        return None

    def _yield(self, new_state):
        me = self.me()
        with self.cv:
            if self.aborted:
                raise Abort()
            self.state[me] = new_state
            nxt = self._pick(me)
            self.turn = nxt
            if nxt is None:
                if self.error:
                    self.aborted = True
                self.finished.set()
            self.cv.notify_all()
            if new_state[0] == "done":
                return None
            while self.turn != me:
                if self.aborted:
                    raise Abort()
                self.cv.wait(2)
            self.state[me] = ("running",)
            return self.reason.pop(me, None)

    def point(self, label):
        if self.me() is None:
            return
        self.labels.append((self.me(), label))
        self._yield(("ready",))

    def block_until(self, pred, timeout=None, label="wait"):
        """parks the calling thread; True when pred() holds, False when the (virtual) time-out fired first"""
        if self.me() is None:
            return pred()
        if pred():
            return True
        self.labels.append((self.me(), label))
        deadline = None if timeout is None else self.now + max(0.0, float(timeout))
        r = self._yield(("blocked", pred, deadline))
        return bool(r)

    # -- threads
    def spawn(self, fn, obj=None):
        tid = self.next_tid
        self.next_tid += 1

        def body():
            try:
                with self.cv:
                    while self.turn != tid:
                        if self.aborted:
                            return
                        self.cv.wait(2)
                    self.state[tid] = ("running",)
                fn()
            except Abort:
                return
            except BaseException as e:      # noqa
                self.error = self.error or "thread T%d died: %s: %s" % (tid, type(e).__name__, e)
            try:
                self._yield(("done",))
            except Abort:
                pass
        th = threading.Thread(target=body)
        th.daemon = True
        self.ids[th] = tid
        self.objs[tid] = obj
        self.state[tid] = ("ready",)
        th.start()
        return tid

    def run(self, client):
        self.spawn(client)
        with self.cv:
            self.turn = self._pick(None)
            self.cv.notify_all()
        if not self.finished.wait(30):
            self.error = self.error or "schedule did not finish within 30 s of real time"
            with self.cv:
                self.aborted = True
                self.cv.notify_all()


def primitives(S):
    """deterministic look-alikes of the threading / queue objects the pool uses"""

    class SLock(object):
        reentrant = False

        def __init__(self):
            self.owner, self.count = None, 0

        def acquire(self, blocking=True, timeout=-1):
            S.point("lock.acquire")
            me = S.me()
            if self.reentrant and self.owner == me and me is not None:
                self.count += 1
                return True
            if not S.block_until(lambda: self.owner is None, None if timeout in (-1, None) else timeout, "wait for the lock"):
                return False
            self.owner, self.count = me, 1
            return True

        def release(self):
            self.count -= 1
            if self.count <= 0:
                self.owner, self.count = None, 0
                # leaving a critical section is a scheduling point too: what a thread reads next without the lock
                # (queue.unfinished_tasks in join()) may be changed by another thread first
                S.point("lock.release")

        def __enter__(self):
            self.acquire()
            return self

        def __exit__(self, *a):
            self.release()
            return False

    class SRLock(SLock):
        reentrant = True

    class SEvent(object):
        def __init__(self):
            self.flag = False

        def set(self):
            S.point("event.set")
            self.flag = True

        def clear(self):
            S.point("event.clear")
            self.flag = False

        def is_set(self):
            S.point("event.is_set")
            return self.flag
        isSet = is_set

        def wait(self, timeout=None):
            S.point("event.wait")
            S.block_until(lambda: self.flag, timeout, "wait for the event")
            return self.flag

    class SCondition(object):
        def __init__(self, lock):
            self.lock, self.gen = lock, 0

        def __enter__(self):
            self.lock.acquire()
            return self

        def __exit__(self, *a):
            self.lock.release()
            return False

        def wait(self, timeout=None):
            gen0 = self.gen
            self.lock.release()
            r = S.block_until(lambda: self.gen != gen0, timeout, "condition.wait")
            self.lock.acquire()
            return r

        def notify_all(self):
            self.gen += 1
        notifyAll = notify_all

    class SQueue(object):
        def __init__(self, maxsize=0):
            self.maxsize = maxsize
            self.items = collections.deque()
            self.unfinished_tasks = 0
            self.mutex = SLock()
            self.all_tasks_done = SCondition(self.mutex)

        def qsize(self):
            S.point("queue.qsize")
            return len(self.items)

        def empty(self):
            S.point("queue.empty")
            return not self.items

        def put(self, item, block=True, timeout=None):
            S.point("queue.put")
            if self.maxsize > 0 and len(self.items) >= self.maxsize:
                if not block or not S.block_until(lambda: len(self.items) < self.maxsize, timeout, "queue.put waits for room"):
                    raise real_queue.Full()
            self.items.append(item)
            self.unfinished_tasks += 1

        def get(self, block=True, timeout=None):
            S.point("queue.get")
            if not self.items:
                if not block or not S.block_until(lambda: bool(self.items), timeout, "queue.get waits for an item"):
                    raise real_queue.Empty()
            return self.items.popleft()

        def get_nowait(self):
            return self.get(False)

        def put_nowait(self, item):
            return self.put(item, False)

        def task_done(self):
            S.point("queue.task_done")
            if self.unfinished_tasks <= 0:
                raise ValueError("task_done() called too many times")
            self.unfinished_tasks -= 1
            if self.unfinished_tasks == 0:
                self.all_tasks_done.notify_all()

        def join(self):
            S.point("queue.join")
            S.block_until(lambda: self.unfinished_tasks == 0, None, "queue.join")

    class SThread(object):
        def __init__(self, group=None, target=None, name=None, args=(), kwargs=None, daemon=None):
            self.target, self.name, self.args, self.kwargs = target, name or "thread", args, kwargs or {}
            self.daemon = daemon
            self.tid = None

        def start(self):
            S.point("thread.start")
            if self.tid is not None:
                raise RuntimeError("threads can only be started once")
            self.tid = S.spawn(lambda: self.target(*self.args, **self.kwargs), self)

        def is_alive(self):
            S.point("thread.is_alive")
            return self.tid is not None and S.state[self.tid][0] != "done"
        isAlive = is_alive

        def join(self, timeout=None):
            S.point("thread.join")
            if self.tid is None:
                raise RuntimeError("cannot join thread before it is started")
            S.block_until(lambda: S.state[self.tid][0] == "done", timeout, "thread.join")

    client_thread = SThread(name="client")

    def current_thread():
        return S.objs.get(S.me()) or client_thread

    th = types.SimpleNamespace(Thread=SThread, Event=SEvent, Lock=SLock, RLock=SRLock, Condition=SCondition,
                               current_thread=current_thread, currentThread=current_thread)
    qu = types.SimpleNamespace(Queue=SQueue, Empty=real_queue.Empty, Full=real_queue.Full)
    return th, qu


class Probe(object):
    """what the tasks record"""

    def __init__(self):
        self.runs = collections.Counter()
        self.order = []
        self.executing = 0
        self.max_executing = 0
        self.after_stop = []
        self.stopped = False


def _task(S, probe, name, value=None, exc=None, wait_for=None, then_set=None):
    def task():
        probe.runs[name] += 1
        probe.order.append(name)
        if probe.stopped:
            probe.after_stop.append(name)
        probe.executing += 1
        probe.max_executing = max(probe.max_executing, probe.executing)
        try:
            S.point("task %s runs" % name)
            if then_set is not None:
                then_set.set()
            if wait_for is not None:
                wait_for.wait()
            if exc is not None:
                raise exc
            return value
        finally:
            probe.executing -= 1
    task.__name__ = "task_" + name
    return task


def programs(max_threads):
    progs = ["basic", "prestart", "join", "join-after-partial", "idle-then-more", "prestart-idle-more", "restart", "stop-with-queued",
             "queued-stop-restart-dependent"]
    if max_threads >= 2:
        progs.insert(3, "dependent")
    return progs + ["stop-vs-enqueue", "stop-vs-join", "clear-while-running"]


def _one(tp, program, max_threads, min_threads, prefix, bound):
    S = Sched(prefix, bound)
    th, qu = primitives(S)
    probe = Probe()
    problems = []
    marker = {n: object() for n in "abcdefghxy"}      # identities of the results
    err = RuntimeError("task failed")

    def expect(fut, name, kind="value"):
        try:
            got = fut.result()
            if kind != "value" or got is not marker[name]:
                problems.append("future of task %s yields another value" % name)
        except RuntimeError as e:
            if kind != "raise" or e is not err:
                problems.append("future of task %s raises another exception" % name)
        if not fut.done():
            problems.append("future of task %s is not done after result()" % name)
        if probe.runs[name] != 1:
            problems.append("task %s executed %d time(s)" % (name, probe.runs[name]))

    def client():
        pool = tp.ThreadPool(max_threads, min_threads, timeout=5, logname="verif.pool")
        T = lambda n, **k: _task(S, probe, n, value=marker.get(n), **k)      # noqa: E731
        if program == "basic":
            pool.start()
            fa, fb, fc = pool.enqueue(T("a")), pool.enqueue(T("b")), pool.enqueue(_task(S, probe, "c", exc=err))
            expect(fa, "a"), expect(fb, "b"), expect(fc, "c", "raise")
            stop(pool)
        elif program == "prestart":
            futs = [(n, pool.enqueue(T(n))) for n in "abcde"[:max_threads + 2]]
            pool.start()
            for n, f in futs:
                expect(f, n)
            stop(pool)
        elif program == "join":
            pool.start()
            futs = [(n, pool.enqueue(T(n))) for n in "abc"]
            if pool.join() is not True:
                problems.append("join() did not return True")
            for n, f in futs:
                if probe.runs[n] != 1 or not f.done():
                    problems.append("join() returned True before task %s had finished" % n)
            r = pool.join(1)
            if r is not True:
                problems.append("join(timeout) on an idle pool returned %r" % (r,))
            stop(pool)
        elif program == "join-after-partial":
            pool.start()
            futs = [(n, pool.enqueue(T(n))) for n in "abc"]
            expect(futs[1][1], "b")
            if pool.join() is not True:
                problems.append("join() did not return True")
            for n, f in futs:
                if probe.runs[n] != 1 or not f.done():
                    problems.append("join() returned True before task %s had finished" % n)
            stop(pool)
        elif program == "prestart-idle-more":
            futs = [(n, pool.enqueue(T(n))) for n in "abcde"[:max_threads + 2]]
            pool.start()
            for n, f in futs:
                expect(f, n)
            th.Event().wait(60)               # idle workers may retire
            expect(pool.enqueue(T("g")), "g")
            if max_threads >= 2:
                gate = th.Event()
                fw = pool.enqueue(_task(S, probe, "x", value=marker["x"], wait_for=gate))
                fs = pool.enqueue(_task(S, probe, "y", value=marker["y"], then_set=gate))
                expect(fw, "x"), expect(fs, "y")
            stop(pool)
        elif program == "dependent":
            pool.start()
            gate = th.Event()
            fw = pool.enqueue(_task(S, probe, "a", value=marker["a"], wait_for=gate))
            fs = pool.enqueue(_task(S, probe, "b", value=marker["b"], then_set=gate))
            expect(fw, "a"), expect(fs, "b")
            stop(pool)
        elif program == "idle-then-more":
            pool.start()
            expect(pool.enqueue(T("a")), "a")
            th.Event().wait(60)               # nothing to do for a long time: idle workers may retire
            expect(pool.enqueue(T("b")), "b")
            fc, fd = pool.enqueue(T("c")), pool.enqueue(T("d"))
            expect(fc, "c"), expect(fd, "d")
            stop(pool)
        elif program == "restart":
            pool.start()
            expect(pool.enqueue(T("a")), "a")
            stop(pool)
            probe.stopped = False
            fb = pool.enqueue(T("b"))          # accepted between a stop and a restart
            if probe.runs["b"]:
                problems.append("a task ran while the pool was stopped")
            pool.start()
            expect(fb, "b")
            expect(pool.enqueue(T("c")), "c")
            stop(pool)
        elif program in ("stop-vs-enqueue", "stop-vs-join"):
            # C11: stop() returns under every interleaving with an enqueue / a join made by another client thread
            pool.start()
            expect(pool.enqueue(T("a")), "a")
            over = th.Event()

            def other():
                if program == "stop-vs-enqueue":
                    pool.enqueue(T("b"))
                else:
                    pool.join(5)
                over.set()
            S.spawn(other)
            stop(pool)
            over.wait()
        elif program == "clear-while-running":
            # clear() called while a task is executing (it waits for it), then new work: the pool still grows as C10 demands
            pool.start()
            gate, running = th.Event(), th.Event()
            fa = pool.enqueue(_task(S, probe, "a", value=marker["a"], wait_for=gate, then_set=running))
            running.wait()
            S.spawn(gate.set)                  # another client lets the task finish while clear() is waiting for it
            pool.clear()
            expect(fa, "a")
            if max_threads >= 2:
                g2 = th.Event()
                fw = pool.enqueue(_task(S, probe, "x", value=marker["x"], wait_for=g2))
                fs = pool.enqueue(_task(S, probe, "y", value=marker["y"], then_set=g2))
                expect(fw, "x"), expect(fs, "y")
            else:
                expect(pool.enqueue(T("g")), "g")
            stop(pool)
        elif program == "stop-with-queued":
            pool.start()
            gate = th.Event()
            fa = pool.enqueue(_task(S, probe, "a", value=marker["a"], wait_for=gate))
            for n in "bcd":
                pool.enqueue(T(n))
            gate.set()
            expect(fa, "a")
            stop(pool)
        elif program == "queued-stop-restart-dependent":
            pool.start()
            first = pool.enqueue(T("a"))
            for n in "bc":
                pool.enqueue(T(n))
            expect(first, "a")
            stop(pool)
            probe.stopped = False
            pool.start()
            if max_threads >= 2:
                gate = th.Event()
                fw = pool.enqueue(_task(S, probe, "e", value=marker["e"], wait_for=gate))
                fs = pool.enqueue(_task(S, probe, "f", value=marker["f"], then_set=gate))
                expect(fw, "e"), expect(fs, "f")
            else:
                expect(pool.enqueue(T("e")), "e")
            stop(pool)

    def stop(pool):
        pool.stop()
        probe.stopped = True
        # "every worker thread terminates on its own": a worker that has left the pool's accounting may still be on its
        # way out when stop() returns; it gets (virtual) time to finish, must not start a task meanwhile, and must be gone then
        th.Event().wait(1)
        alive = [t for t, o in S.objs.items() if o is not None and S.state[t][0] != "done"]
        if alive:
            problems.append("%d worker(s) still alive some time after stop() has returned" % len(alive))

    saved = (tp.threading, tp.queue)
    tp.threading, tp.queue = th, qu
    try:
        S.run(client)
    finally:
        tp.threading, tp.queue = saved
    if S.error:
        problems.append(S.error)
    for n, k in probe.runs.items():
        if k > 1:
            problems.append("task %s executed %d time(s)" % (n, k))
    if probe.max_executing > max_threads:
        problems.append("%d tasks executing at the same time with max_threads=%d" % (probe.max_executing, max_threads))
    if probe.after_stop:
        problems.append("task(s) %s ran after stop() had returned" % ",".join(probe.after_stop))
    if max_threads == 1 and program in ("basic", "prestart", "join", "join-after-partial") and probe.order != sorted(probe.order):
        problems.append("single worker ran the tasks in the order %s" % "".join(probe.order))
    return S.trace, sorted(set(problems)), S.labels


def _describe(labels, limit=60):
    out, last = [], None
    for t, lab in labels[-limit:]:
        if t != last:
            out.append("T%d:" % t)
            last = t
        out.append(lab)
    return " ".join(out)


def run(tier="quick", seed=0, pid=None):
    import jsonrpclib.threadpool as tp
    logging.disable(logging.CRITICAL)
    bound = 1 if tier == "quick" else 2
    sizes = [(1, 0), (1, 1), (2, 0), (2, 1)] if tier == "quick" else [(1, 0), (1, 1), (2, 0), (2, 1), (2, 2), (3, 0), (3, 1)]
    cap_per = 700 if tier == "quick" else 3000
    failures, n, seen = [], 0, set()
    for max_t, min_t in sizes:
        for program in programs(max_t):
            stack, cap = [[]], cap_per
            while stack and cap > 0:
                prefix = stack.pop()
                cap -= 1
                n += 1
                trace, problems, labels = _one(tp, program, max_t, min_t, prefix, bound)
                for i in range(len(prefix), len(trace)):
                    for alt in range(1, trace[i][1]):
                        stack.append([c for c, _ in trace[:i]] + [alt])
                for p in problems:
                    key = (program, max_t, min_t, p.split(":")[0][:40])
                    if key in seen:
                        continue
                    seen.add(key)
                    failures.append({"name": "jsonrpclib.threadpool.ThreadPool/schedule[%s]" % (
                        "terminates_without_losing_a_task" if ("deadlock" in p or "termination" in p) else "task_accounting"),
                        "input": {"program": program, "max_threads": max_t, "min_threads": min_t, "end of the schedule": _describe(labels)},
                        "observed": p})
    return {"kind": "client programs on the real ThreadPool, real threads under a deterministic scheduler with look-alike "
                    "threading/queue primitives and virtual time (bounded)",
            "bound": "%d pre-emption(s) per schedule, at most %d schedules per program; programs %s; (max, min) in %s" % (
                bound, cap_per, ", ".join(programs(2)), sizes),
            "exhaustive_within_bound": False, "evaluations": n, "failures": failures}
