"""C12: lifecycle histories and concurrent clients on the real servers over loopback TCP (bounded).

Every history runs under a watchdog: an operation that does not return within the limit is reported as "did not
terminate".  After the final server_close() the listening socket must be closed and every worker of the pool the
server created must have terminated.  Concurrent clients send distinguishable requests and each must get the answer to
its own request; a failing method or an invalid body on one connection must not prevent later requests."""
import http.client
import logging
import threading
import time

LIMIT = 8.0


def _watch(fn, limit=LIMIT):
    box = {}

    def body():
        try:
            box["value"] = fn()
        except BaseException as e:      # noqa
            box["error"] = e
    t = threading.Thread(target=body)
    t.daemon = True
    t.start()
    t.join(limit)
    if t.is_alive():
        return "did not terminate within %.0f s" % limit
    if "error" in box:
        return "raised %s: %s" % (type(box["error"]).__name__, box["error"])
    return None


def _clients(port, n_clients, per_client, failures, desc):
    import jsonrpclib
    errs = []

    def client(k):
        try:
            p = jsonrpclib.ServerProxy("http://127.0.0.1:%d" % port)
            for j in range(per_client):
                tag = "c%d-%d" % (k, j)
                if j % 4 == 2:
                    try:
                        p.fail(tag)
                        errs.append("failing method returned")
                    except jsonrpclib.jsonrpc.ProtocolError as e:
                        if tag not in str(e):
                            errs.append("error of another request: %s" % (e,))
                elif j % 4 == 3 and k % 2 == 1:
                    # a client that announces more bytes than it sends and goes away
                    import socket
                    s_ = socket.create_connection(("127.0.0.1", port), timeout=5)
                    s_.sendall(b"POST / HTTP/1.0\r\nContent-Type: application/json\r\nContent-Length: 500\r\n\r\n{\"jsonrpc\": \"2.0\", " + tag.encode())
                    s_.shutdown(socket.SHUT_WR)
                    try:
                        s_.settimeout(5)
                        while s_.recv(4096):
                            pass
                    except Exception:      # noqa
                        errs.append("no reply (or no close) for a request shorter than its Content-Length")
                    s_.close()
                elif j % 4 == 3:
                    c = http.client.HTTPConnection("127.0.0.1", port, timeout=5)
                    c.request("POST", "/", body=b"{not json " + tag.encode(), headers={"Content-Type": "application/json"})
                    r = c.getresponse()
                    r.read()
                    c.close()
                else:
                    got = p.echo(tag, k, j)
                    if got != [tag, k, j]:
                        errs.append("client %d got %r for %s" % (k, got, tag))
            p("close")()
        except Exception as e:      # noqa
            errs.append("client %d: %s: %s" % (k, type(e).__name__, e))
    ths = [threading.Thread(target=client, args=(k,)) for k in range(n_clients)]
    for t in ths:
        t.daemon = True
        t.start()
    for t in ths:
        t.join(LIMIT * 2)
        if t.is_alive():
            errs.append("a client did not finish")
    for e in errs[:3]:
        failures.append({"name": "jsonrpclib.SimpleJSONRPCServer/bounded[each_client_gets_its_own_answers]", "input": desc, "observed": e})


def run(tier="quick", seed=0):
    logging.disable(logging.CRITICAL)
    from jsonrpclib.SimpleJSONRPCServer import SimpleJSONRPCServer, PooledJSONRPCServer
    import jsonrpclib.threadpool as tp
    failures, n = [], 0
    histories = [("construct", "close"),
                 ("construct", "serve", "close"),
                 ("construct", "serve", "shutdown", "close"),
                 ("construct", "serve", "requests", "shutdown", "close"),
                 ("construct", "serve", "requests", "close"),
                 ("construct", "serve", "slow-requests", "shutdown", "close"),
                 ("construct", "close", "close")]
    import os
    import shutil
    import socket
    import tempfile
    sockdir = tempfile.mkdtemp(prefix="verif_c12_")
    kinds = [("simple", None), ("pooled", None), ("pooled", 1), ("pooled", 3)]
    if hasattr(socket, "AF_UNIX"):
        kinds += [("simple-unix", None), ("pooled-unix", None)]
    for kind, pool_size in kinds:
        for hist in histories:
            if kind.endswith("-unix") and ("requests" in hist or "slow-requests" in hist):
                continue    # the Unix-socket listeners are taken through the stop sequences only
            if kind.startswith("simple") and hist in (("construct", "serve", "close"), ("construct", "serve", "requests", "close")):
                continue    # closing the socket of a plain server that is still serving is not one of the stop sequences
            n += 1
            desc = {"server": kind, "pool_size": pool_size, "history": " > ".join(hist)}
            calls = []
            state = {}

            def construct():
                pool = None
                if pool_size is not None:
                    pool = tp.ThreadPool(pool_size, 0, logname="verif")
                    pool.start()
                cls = SimpleJSONRPCServer if kind.startswith("simple") else PooledJSONRPCServer
                kw = {"thread_pool": pool} if pool is not None else {}
                if kind.endswith("-unix"):
                    srv = cls(os.path.join(sockdir, "l%d.sock" % n), logRequests=False, address_family=socket.AF_UNIX, **kw)
                else:
                    srv = cls(("127.0.0.1", 0), logRequests=False, **kw)
                srv.register_function(lambda *a: list(a), "echo")

                def fail(tag):
                    raise ValueError("failed " + tag)
                srv.register_function(fail, "fail")

                def slow(x):
                    time.sleep(0.3)
                    calls.append(x)
                    return x
                srv.register_function(slow, "slow")
                state["srv"], state["pool"] = srv, pool
            problem = _watch(construct)
            if problem:
                failures.append({"name": "jsonrpclib.SimpleJSONRPCServer/bounded[lifecycle_terminates]", "input": desc,
                                 "observed": "construct " + problem})
                continue
            srv = state["srv"]
            slow_threads = []
            for step in hist[1:]:
                if step == "serve":
                    th = threading.Thread(target=srv.serve_forever, kwargs={"poll_interval": 0.05})
                    th.daemon = True
                    th.start()
                    state["thread"] = th
                    time.sleep(0.15)
                    continue
                if step == "requests":
                    _clients(srv.server_address[1], 4 if tier == "quick" else 12, 6 if tier == "quick" else 20, failures, desc)
                    continue
                if step == "slow-requests":
                    import jsonrpclib

                    def slow_call(i):
                        try:
                            jsonrpclib.ServerProxy("http://127.0.0.1:%d" % srv.server_address[1]).slow(i)
                        except Exception:      # noqa
                            pass
                    for i in range(3):
                        t = threading.Thread(target=slow_call, args=(i,))
                        t.daemon = True
                        t.start()
                        slow_threads.append(t)
                    time.sleep(0.1)
                    continue
                fn = srv.shutdown if step == "shutdown" else srv.server_close
                problem = _watch(fn)
                if problem:
                    failures.append({"name": "jsonrpclib.SimpleJSONRPCServer/bounded[lifecycle_terminates]", "input": desc,
                                     "observed": "%s() %s" % ("shutdown" if step == "shutdown" else "server_close", problem)})
                    break
            else:
                for t in slow_threads:
                    t.join(LIMIT)
                if state.get("thread") is not None:
                    state["thread"].join(LIMIT)
                    if state["thread"].is_alive():
                        failures.append({"name": "jsonrpclib.SimpleJSONRPCServer/bounded[lifecycle_terminates]", "input": desc,
                                         "observed": "the serving thread is still running after the stop sequence"})
                if srv.socket.fileno() != -1:
                    failures.append({"name": "jsonrpclib.SimpleJSONRPCServer/bounded[socket_closed_after_close]", "input": desc,
                                     "observed": "listening socket still open"})
                if kind.startswith("pooled"):
                    pool = getattr(srv, "_PooledJSONRPCServer__request_pool")
                    deadline = time.time() + LIMIT
                    alive = [t for t in getattr(pool, "_threads", []) if t.is_alive()]
                    while alive and time.time() < deadline:
                        time.sleep(0.05)
                        alive = [t for t in getattr(pool, "_threads", []) if t.is_alive()]
                    if alive:
                        failures.append({"name": "jsonrpclib.SimpleJSONRPCServer/bounded[pool_workers_terminate]", "input": desc,
                                         "observed": "%d worker(s) of the request pool still alive" % len(alive)})
                # requests still waiting (in the listen backlog or in the pool's queue) when the server stops may be
                # dropped; what was executed was executed once
                if "slow-requests" in hist and (len(set(calls)) != len(calls) or not set(calls) <= {0, 1, 2}):
                    failures.append({"name": "jsonrpclib.SimpleJSONRPCServer/bounded[no_duplicated_execution]", "input": desc,
                                     "observed": "executed: %r" % sorted(calls)})
    shutil.rmtree(sockdir, ignore_errors=True)
    return {"kind": "lifecycle histories (TCP and Unix-socket listeners) and concurrent clients on the real servers, with a watchdog (bounded)",
            "bound": "%d histories x {plain, pooled with default / 1 / 3 workers}; 4 (quick) or 12 concurrent clients mixing calls, "
                     "failing methods and invalid bodies; %.0f s watchdog per operation" % (len(histories), LIMIT),
            "evaluations": n, "failures": failures[:40], "failures_total": len(failures)}
