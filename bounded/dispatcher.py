"""C02-C05, C13, C08 (server side): the real _marshaled_dispatch against the specification of DESIGN Appendix A written
in plain Python, over an enumerated corpus of request bodies (bounded; complements the proofs and still finds a failing
input when a changed function leaves the accepted subset)."""
import itertools
import json
import random

CODES = {"parse": -32700, "invalid": -32600, "unknown": -32601, "params": -32602, "internal": -32603}


class Env(object):
    """registered callables with a call log"""
    def __init__(self):
        self.log = []

    def add(self, a, b):
        self.log.append(("add", (a, b)))
        return a + b

    def echo(self, *args, **kwargs):
        self.log.append(("echo", (args, kwargs)))
        return list(args) if args else kwargs

    def boom(self, *args):
        self.log.append(("boom", args))
        if len(args) == 1:
            # an ordinary exception whose arguments are not JSON values (UnicodeDecodeError carries the bytes)
            b"\xff\xfe".decode("utf-8")
        if len(args) == 2:
            raise KeyError(("tuple", b"key"))
        raise RuntimeError("kaboom")

    def te(self, x):
        self.log.append(("te", (x,)))
        return 1 + "a"           # a TypeError raised by the body, not by argument binding

    def falsy(self):
        self.log.append(("falsy", ()))
        return 0


class Inst(object):
    def __init__(self, env):
        self._env = env
        self.sub = self

    def pub(self, x=1):
        self._env.log.append(("pub", (x,)))
        return x

    def _priv(self):
        self._env.log.append(("_priv", ()))
        return "secret"


def wellformed(e):
    return (isinstance(e, dict) and ("jsonrpc" in e or "id" in e) and isinstance(e.get("method"), str) and e["method"] != ""
            and ("params" not in e or isinstance(e["params"], (list, dict))))


def is_notification(e):
    return "id" not in e or e["id"] is None or e["id"] == ""


def lookup(name, with_instance):
    table = {"add": 2, "echo": None, "boom": None, "te": 1, "falsy": 0}
    if name in table:
        return name
    if with_instance:
        parts = name.split(".")
        if any(p.startswith("_") for p in parts):
            return None
        if all(p in ("sub",) for p in parts[:-1]) and parts[-1] == "pub":
            return "pub"
    return None


def expect(e, server_v2, with_instance):
    """(kind, code, id, v1_form) for one entry; kind in {none, result, error}"""
    v1 = (isinstance(e, dict) and "jsonrpc" not in e) or not server_v2
    if not wellformed(e):
        rid = e.get("id") if isinstance(e, dict) and "id" in e else None
        return ("error", CODES["invalid"], rid, v1, 0)
    m = e["method"]
    p = e.get("params", [])
    f = lookup(m, with_instance)
    calls = 0
    if f is None:
        out = ("error", CODES["unknown"], e.get("id"), v1, 0)
    else:
        calls = 1
        nargs = len(p)
        arity = {"add": 2, "te": 1, "falsy": 0, "pub": None, "echo": None, "boom": None}[f]
        bind_ok = True
        if isinstance(p, dict):
            if f == "add":
                bind_ok = set(p) == {"a", "b"}
            elif f == "te":
                bind_ok = set(p) == {"x"}
            elif f == "falsy":
                bind_ok = not p
            elif f == "pub":
                bind_ok = set(p) <= {"x"}
            elif f == "boom":
                bind_ok = not p
        else:
            if arity is not None:
                bind_ok = nargs == arity
            elif f == "pub":
                bind_ok = nargs <= 1
        if not bind_ok:
            calls = 0
            out = ("error", CODES["params"], e.get("id"), v1, 0)
        elif f == "boom":
            out = ("error", CODES["internal"], e.get("id"), v1, 1)
        elif f == "te":
            out = ("error", CODES["internal"], e.get("id"), v1, 1)
        elif f == "add" and not all(isinstance(x, (int, float)) and not isinstance(x, bool) or isinstance(x, bool) for x in (p if isinstance(p, list) else p.values())):
            out = ("error?", None, e.get("id"), v1, 1)          # add of non-numbers: raises or concatenates; not judged
        else:
            out = ("result", None, e.get("id"), v1, 1)
    if is_notification(e):
        return ("none", None, None, v1, out[4])
    return out


# (type name, str(exception)) of everything the registered callables of this corpus raise
RAISED = [("RuntimeError", "kaboom"), ("UnicodeDecodeError", "'utf-8' codec can't decode byte 0xff in position 0: invalid start byte"),
          ("KeyError", "('tuple', b'key')"), ("TypeError", "unsupported operand type(s) for +: 'int' and 'str'")]


def check_response(r, exp, problems, where):
    kind, code, rid, v1, _ = exp
    if not isinstance(r, dict):
        problems.append("%s: response is not an object: %r" % (where, r))
        return
    if v1:
        if set(r) != {"result", "error", "id"}:
            problems.append("%s: 1.0-form members expected, got %r" % (where, sorted(r)))
    else:
        if r.get("jsonrpc") != "2.0" or "id" not in r or ("result" in r) == ("error" in r):
            problems.append("%s: not a well-formed 2.0 response: %r" % (where, r))
    if "id" in r and not (r["id"] == rid and type(r["id"]) is type(rid)):
        problems.append("%s: id %r echoed as %r" % (where, rid, r.get("id")))
    err = r.get("error")
    if kind == "error":
        if not isinstance(err, dict) or not isinstance(err.get("code"), int) or not isinstance(err.get("message"), str):
            problems.append("%s: malformed error object %r" % (where, err))
        elif err["code"] != code:
            problems.append("%s: error code %r, expected %r" % (where, err["code"], code))
        elif code == CODES["internal"] and not any(t in err["message"] and x in err["message"] for t, x in RAISED):
            # C05: "-32603 whose message names the exception type and text"
            problems.append("%s: error message %r does not name the type and text of the exception the method raised" % (where, err["message"][:160]))
        if v1 and r.get("result") is not None:
            problems.append("%s: 1.0 error with a result" % where)
    elif kind == "result":
        if err is not None:
            problems.append("%s: unexpected error %r" % (where, err))


def classify(problem):
    if "form members expected" in problem or "not a well-formed 2.0" in problem:
        return "C13" if "form members" in problem else "C02"
    if "error code" in problem or "error message" in problem:
        return "C05"
    if "echoed as" in problem or "responses expected" in problem:
        return "C03"
    if "notification answered" in problem or "calls made" in problem or "callable ran" in problem or "empty body" in problem:
        return "C04"
    return "C02"


def kinds(body):
    """which notable kinds of entries the body contains (used to identify known findings by input)"""
    try:
        req = json.loads(body)
    except ValueError:
        return ["malformed-json"]
    es = req if isinstance(req, list) else [req]
    out = set()
    for e in es:
        if isinstance(e, dict) and "jsonrpc" not in e and "id" not in e:
            out.add("no-version-marker")
        if isinstance(e, dict) and e.get("method") == "te":
            out.add("method-raises-TypeError-in-its-body")
    return sorted(out)


def bodies(rng, tier):
    ids = ["<absent>", None, "", 0, -1, 1.5, "x", False, True, [], [1], {}, {"a": 1}]
    methods = ["<absent>", "add", "echo", "boom", "te", "falsy", "nosuch", "", 5, None, "pub", "sub.pub", "_priv", "sub._priv",
               "sub.sub.pub", "_env"]
    paramss = ["<absent>", [], [1, 2], [1], {"a": 1, "b": 2}, {"x": 1}, {}, 5, "s", None, [[1], {"k": None}]]
    versions = ["<absent>", "2.0", "1.0", 2.0]
    entries = []
    for v, i, m, p in itertools.product(versions, ids, methods, paramss):
        e = {}
        if v != "<absent>":
            e["jsonrpc"] = v
        if i != "<absent>":
            e["id"] = i
        if m != "<absent>":
            e["method"] = m
        if p != "<absent>":
            e["params"] = p
        entries.append(e)
    rng.shuffle(entries)
    cap = 1500 if tier == "quick" else 20000
    singles = entries[:cap] + [{"foo": "boo"}, {}, [], 0, None, "x", 1.5, True, [1, 2]]
    out = [json.dumps(e) for e in singles]
    for n in (1, 2, 3, 5):
        for _ in range(150 if tier == "quick" else 2000):
            out.append(json.dumps([rng.choice(entries + [1, "x", None, [], {}]) for _ in range(n)]))
    # entries that are themselves non-empty arrays: one invalid entry each (-32600, id null), never a nested batch
    call = {"jsonrpc": "2.0", "id": 2, "method": "add", "params": [1, 2]}
    note = {"jsonrpc": "2.0", "method": "add", "params": [1, 2]}
    nested = [[1, 2], [call], [note], [call, note], [[call]], [{}]]
    for arr in nested:
        out.append(json.dumps([arr]))
        out.append(json.dumps([call, arr]))
        out.append(json.dumps([arr, note]))
        out.append(json.dumps([note, arr, dict(call, id="z")]))
    valid = json.dumps({"jsonrpc": "2.0", "id": 7, "method": "add", "params": [1, 2]})
    for k in range(len(valid)):
        out.append(valid[:k])
        out.append(valid[:k] + "\x00" + valid[k + 1:])
    out += ["", " ", "{", "[", "]", "nul", "é中", "[]", "{}", "[[]]", "😀"[:1] if False else "\U0001F600"]
    return out


def run(tier="quick", seed=0, pid=None):
    import logging
    logging.disable(logging.CRITICAL)
    import jsonrpclib.config as C
    from jsonrpclib.SimpleJSONRPCServer import SimpleJSONRPCDispatcher
    rng = random.Random(seed)
    failures, n = [], 0
    corpus = bodies(rng, tier)
    extra_ids = [('{"jsonrpc":"2.0","id":{"__jsonclass__":["decimal.Decimal",["1"]]},"method":"falsy"}', "translated-id")]
    # payloads the class translator rejects (C02/C05: answered with a single -32700, nothing runs) when translation is on;
    # plain data when it is off
    rejected = []
    for desc in (["Foo", []], ["no.such.module.K", []], ["bad-name", []], ["", []], ["decimal.Decimal", ["x"]], ["os.sep", []],
                 ["decimal.Decimal"], ["decimal.Decimal", 5], ["json.nosuchattr", []], [5, []]):
        for where in ("param", "nested", "batch"):
            bean = {"__jsonclass__": desc}
            e = {"jsonrpc": "2.0", "id": 3, "method": "echo", "params": [bean] if where != "nested" else [{"k": [1, bean]}]}
            rejected.append(json.dumps([e, {"jsonrpc": "2.0", "id": 4, "method": "add", "params": [1, 2]}] if where == "batch" else e))
    corpus = corpus + rejected
    rejected = set(rejected)
    for server_v2, with_instance, use_jc, custom in itertools.product((True, False), (False, True), (True, False), (False, True)):
        for body in corpus if not custom else corpus[:300]:
            env = Env()
            d = SimpleJSONRPCDispatcher(config=C.Config(version=2.0 if server_v2 else 1.0, use_jsonclass=use_jc))
            for name in ("add", "echo", "boom", "te", "falsy"):
                d.register_function(getattr(env, name), name)
            if with_instance:
                d.register_instance(Inst(env), allow_dotted_names=True)
            dm = None
            if custom:
                def dm(method, params, _env=env):
                    _env.log.append(("custom", (method, params)))
                    if method == "boom":
                        raise RuntimeError("kaboom")
                    return 42
            n += 1
            problems = []
            try:
                out = d._marshaled_dispatch(body, dm)
            except Exception as e:     # noqa
                failures.append({"name": "jsonrpclib.SimpleJSONRPCServer.SimpleJSONRPCDispatcher._marshaled_dispatch/bounded[reply_spec]",
                                 "input": {"body": body, "server_version": 2.0 if server_v2 else 1.0, "instance": with_instance,
                                           "use_jsonclass": use_jc, "custom_dispatch": custom, "entry_kinds": kinds(body)},
                                 "observed": "raised %s: %s" % (type(e).__name__, e), "property": "C02"})
                continue
            try:
                req = json.loads(body) if body != "" else None
                parsed = not (use_jc and body in rejected)
            except ValueError:
                parsed = False
            if not isinstance(out, str):
                problems.append("reply is not text: %r" % (out,))
            elif not parsed:
                try:
                    r = json.loads(out)
                    check_response(r, ("error", CODES["parse"], None, not server_v2, 0), problems, "parse error")
                    if env.log:
                        problems.append("a callable ran for a malformed body")
                except ValueError:
                    problems.append("reply to malformed JSON is not JSON: %r" % out)
            elif custom:
                pass        # custom dispatch: covered by the id / notification checks below only for single well-formed calls
            else:
                if not req:
                    exps = [("error", CODES["invalid"], None, (isinstance(req, dict) and True) or not server_v2, 0)] if False else None
                    try:
                        r = json.loads(out)
                        if not (isinstance(r, dict) and isinstance(r.get("error"), dict) and r["error"].get("code") == CODES["invalid"]):
                            problems.append("empty request not answered with -32600: %r" % out)
                    except ValueError:
                        problems.append("reply is not JSON: %r" % out)
                elif isinstance(req, list):
                    exps = [expect(e, server_v2, with_instance) for e in req]
                    want = [x for x in exps if x[0] != "none"]
                    if not want:
                        if out != "":
                            problems.append("batch without answers yields %r instead of an empty body" % out)
                    else:
                        try:
                            rs = json.loads(out)
                        except ValueError:
                            rs = None
                        if not isinstance(rs, list) or len(rs) != len(want):
                            problems.append("batch: %d responses expected, got %r" % (len(want), out[:200]))
                        else:
                            for k, (r, x) in enumerate(zip(rs, want)):
                                if x[0] != "error?":
                                    check_response(r, x, problems, "batch[%d]" % k)
                    if all(x[0] != "error?" for x in exps) and len(env.log) != sum(x[4] for x in exps):
                        problems.append("batch: %d calls made, %d expected" % (len(env.log), sum(x[4] for x in exps)))
                else:
                    x = expect(req, server_v2, with_instance)
                    if x[0] == "none":
                        if out != "":
                            problems.append("notification answered with %r" % out)
                    elif x[0] != "error?":
                        try:
                            check_response(json.loads(out), x, problems, "single")
                        except ValueError:
                            problems.append("reply is not JSON: %r" % out)
                    if x[0] != "error?" and len(env.log) != x[4]:
                        problems.append("%d calls made, %d expected" % (len(env.log), x[4]))
            for pr in problems[:2]:
                failures.append({"name": "jsonrpclib.SimpleJSONRPCServer.SimpleJSONRPCDispatcher._marshaled_dispatch/bounded[reply_spec]",
                                 "input": {"body": body, "server_version": 2.0 if server_v2 else 1.0, "instance": with_instance,
                                           "use_jsonclass": use_jc, "custom_dispatch": custom, "entry_kinds": kinds(body)},
                                 "observed": pr, "property": classify(pr)})
    # custom dispatch functions (a handler's or an instance's _dispatch): the id and notification rules hold whether the
    # function returns or raises (C03, C04)
    for server_v2, ver, rid, method, batch in itertools.product((True, False), ("2.0", "<absent>"),
                                                                 ("<absent>", None, "", 0, "x", 1.5), ("ok", "boom"), (False, True)):
        if ver == "<absent>" and rid == "<absent>":
            continue            # neither a version marker nor an id member: not a well-formed request (Appendix A), not judged here
        env = Env()
        d = SimpleJSONRPCDispatcher(config=C.Config(version=2.0 if server_v2 else 1.0))

        def dm2(m_, p_, _env=env):
            _env.log.append(("custom", (m_, p_)))
            if m_ == "boom":
                raise RuntimeError("kaboom")
            return 42
        e = {"method": method, "params": [1]}
        if ver != "<absent>":
            e["jsonrpc"] = ver
        if rid != "<absent>":
            e["id"] = rid
        call = {"jsonrpc": "2.0", "id": "c", "method": "ok", "params": []}
        body = json.dumps([call, e] if batch else e)
        is_note = rid in ("<absent>", None, "")
        n += 1
        where = {"body": body, "server_version": 2.0 if server_v2 else 1.0, "custom_dispatch": True, "entry_kinds": kinds(body)}
        try:
            out = d._marshaled_dispatch(body, dm2)
            rs = json.loads(out) if out else None
            mine = (rs[1:] if isinstance(rs, list) else rs) if batch else ([] if rs is None else [rs])
            if batch and not (isinstance(rs, list) and rs and rs[0].get("id") == "c"):
                problems = ["batch: the call's response is missing or not first: %r" % (out[:200],)]
            elif is_note:
                problems = ["notification answered with %r" % (mine,)] if mine else []
            elif len(mine) != 1 or not isinstance(mine[0], dict):
                problems = ["batch: 1 responses expected for the entry, got %r" % (mine,)]
            elif mine[0].get("id") != rid or type(mine[0].get("id")) is not type(rid):
                problems = ["id %r echoed as %r" % (rid, mine[0].get("id"))]
            elif method == "boom" and (mine[0].get("error") or {}).get("code") != CODES["internal"]:
                problems = ["single: error code %r, expected %r" % ((mine[0].get("error") or {}).get("code"), CODES["internal"])]
            elif method == "ok" and mine[0].get("result") != 42:
                problems = ["single: unexpected error %r" % (mine[0],)]
            else:
                problems = []
            if len(env.log) != (2 if batch else 1):
                problems.append("%d calls made, %d expected" % (len(env.log), 2 if batch else 1))
        except Exception as ex_:     # noqa
            problems = ["raised %s: %s" % (type(ex_).__name__, ex_)]
        for pr in problems[:2]:
            failures.append({"name": "jsonrpclib.SimpleJSONRPCServer.SimpleJSONRPCDispatcher._marshaled_dispatch/bounded[reply_spec]",
                             "input": where, "observed": pr, "property": "C02" if pr.startswith("raised") else classify(pr)})
    # ids that the class translator turns into objects
    for body, tag in extra_ids:
        env = Env()
        d = SimpleJSONRPCDispatcher(config=C.Config(version=2.0, use_jsonclass=True))
        d.register_function(env.falsy, "falsy")
        n += 1
        try:
            d._marshaled_dispatch(body)
        except Exception as e:     # noqa
            failures.append({"name": "jsonrpclib.SimpleJSONRPCServer.SimpleJSONRPCDispatcher._marshaled_dispatch/bounded[reply_spec]",
                             "input": {"body": body, "server_version": 2.0, "use_jsonclass": True, "entry_kinds": [tag]},
                             "observed": "raised %s: %s" % (type(e).__name__, e), "property": "C02"})
    total = len(failures)
    if pid is not None:
        failures = [f for f in failures if f.get("property") == pid]
    # one representative per (property, observation class, entry kinds)
    seen, reps = set(), []
    for f in failures:
        k = (f.get("property"), f["observed"].split(":")[-1][:40] if "batch[" in f["observed"] else f["observed"][:60],
             tuple(f["input"].get("entry_kinds", [])))
        if k not in seen:
            seen.add(k)
            reps.append(f)
    failures = reps
    return {"kind": "real _marshaled_dispatch against the Appendix-A specification in plain Python (bounded)",
            "bound": "cross product of jsonrpc/id/method/params member values (sampled to %d single entries), batches of 1-5 "
                     "entries, every truncation and one-character corruption of a valid request, x server version x registered "
                     "instance x use_jsonclass x custom dispatch" % (1500 if tier == "quick" else 20000),
            "evaluations": n, "failures": failures[:60], "failures_total": total}
