"""Bounded stand-ins (DESIGN 2.12): deterministic enumerations run on the real code.  Labelled bounded in the evidence,
never counted as proved.  Each module exposes run(tier, seed) -> dict(kind, bound, evaluations, failures=[...])."""
