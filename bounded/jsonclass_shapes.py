"""C07, C15, C20, C08: the real jsonclass.dump/load on generated class shapes, plain-data nestings, handler tables and
hostile class names (bounded; ties the abstract class model of the proofs to real Python classes)."""
import decimal
import enum
import itertools
import json
import random
import sys
import types

MOD = "verif_generated_beans"


def make_classes():
    """class shapes: __dict__ vs __slots__, public/protected/mangled names, inheritance depth 0-3, custom serialise"""
    m = types.ModuleType(MOD)
    sys.modules[MOD] = m
    src = '''
class DictBean(object):
    def __init__(self):
        self.public = 1
        self._protected = [1, "two", None]
        self.__mangled = {"k": 3.5}
    def __eq__(self, other):
        return type(other) is type(self) and vars(other) == vars(self)
    def __ne__(self, other):
        return not self == other

class SlotBean(object):
    __slots__ = ("public", "_protected")
    def __init__(self):
        self.public = "x"
        self._protected = (1, 2)
    def __eq__(self, other):
        return type(other) is type(self) and all(getattr(self, s) == getattr(other, s) or
               list(getattr(self, s)) == list(getattr(other, s)) for s in ("public", "_protected"))

class MangledSlotBean(object):
    __slots__ = ("__p",)
    def __init__(self):
        self.__p = 5
    def __eq__(self, other):
        return type(other) is type(self) and other._MangledSlotBean__p == self._MangledSlotBean__p

class Child1(DictBean):
    def __init__(self):
        DictBean.__init__(self)
        self.extra = "c1"

class Child2(Child1):
    def __init__(self):
        Child1.__init__(self)
        self.extra2 = [True, False]

class Child3(Child2):
    pass

class SlotChild(SlotBean):
    __slots__ = ("more",)
    def __init__(self):
        SlotBean.__init__(self)
        self.more = None
    def __eq__(self, other):
        return SlotBean.__eq__(self, other) and self.more == other.more

class PrivParent(object):
    __slots__ = ("__secret", "shared")
    def __init__(self):
        self.__secret = [1, 2]
        self.shared = "s"
    def __eq__(self, other):
        return type(other) is type(self) and other._PrivParent__secret == self._PrivParent__secret and \
            other.shared == self.shared and getattr(other, "__dict__", {}) == getattr(self, "__dict__", {}) and \
            getattr(other, "own", None) == getattr(self, "own", None)

class PrivChildDict(PrivParent):
    """inherits the private slot, adds attribute-dict fields"""
    def __init__(self):
        PrivParent.__init__(self)
        self.extra = {"k": 1}

class PrivChildSlots(PrivParent):
    """inherits the private slot, declares its own slots (one private too)"""
    __slots__ = ("own", "__mine")
    def __init__(self):
        PrivParent.__init__(self)
        self.own = 7
        self.__mine = None

class PrivGrandChild(PrivChildSlots):
    pass

class Custom(object):
    def __init__(self, a=0, b=0):
        self.a, self.b = a, b
        self.note = None
    def _serialize(self):
        return [self.a, self.b], {"note": self.note}
    def __eq__(self, other):
        return type(other) is type(self) and (self.a, self.b, self.note) == (other.a, other.b, other.note)

class CustomKw(Custom):
    def _serialize(self):
        return {"a": self.a, "b": self.b}, {"note": self.note}

class Holder(object):
    def __init__(self):
        self.items = []
        self.table = {}
    def __eq__(self, other):
        return type(other) is type(self) and self.items == other.items and self.table == other.table

import enum
class Color(enum.Enum):
    RED = "r"
    BLUE = "b"
'''
    exec(src, m.__dict__)
    for k, v in list(m.__dict__.items()):
        if isinstance(v, type):
            v.__module__ = MOD
    return m


def label(x):
    """repr without memory addresses, so that replay files and known-finding matching are stable"""
    import re
    return re.sub(r" object at 0x[0-9a-f]+", "", repr(x))


def canon(x):
    """a text that identifies a value up to the iteration order of sets (repr() of a set depends on the hash seed and on
    the order in which its elements were inserted, so the repr of a set and of its deep copy can differ)"""
    if isinstance(x, (set, frozenset)):
        return "%s{%s}" % (type(x).__name__, ", ".join(sorted(canon(e) for e in x)))
    if isinstance(x, list):
        return "[%s]" % ", ".join(canon(e) for e in x)
    if isinstance(x, tuple):
        return "(%s)" % ", ".join(canon(e) for e in x)
    if isinstance(x, dict):
        return "{%s}" % ", ".join("%s: %s" % (canon(k), canon(v)) for k, v in x.items())
    return label(x)


def norm(x):
    if isinstance(x, (list, tuple)):
        return [norm(e) for e in x]
    if isinstance(x, (set, frozenset)):
        return sorted((norm(e) for e in x), key=repr)
    if isinstance(x, dict):
        return {k: norm(v) for k, v in x.items()}
    return x


def same(a, b):
    if type(a) is not type(b) and not (isinstance(a, (list, tuple)) and isinstance(b, (list, tuple))):
        return False
    if isinstance(a, float):
        return repr(a) == repr(b)          # NaN equals NaN, -0.0 differs from 0.0
    if isinstance(a, (list, tuple)):
        return len(a) == len(b) and all(same(x, y) for x, y in zip(a, b))
    if isinstance(a, dict):
        return set(a) == set(b) and all(same(a[k], b[k]) for k in a)
    return a == b


PRIMS = [None, True, False, 0, 1, -7, 2 ** 60, 0.0, -0.0, 1.5, 1e300, 5e-324, float("inf"), float("-inf"), float("nan"),
         "", "x", "é中", "__jsonclass__"]


def plain_values(rng, tier):
    out = list(PRIMS)
    out += [[], (), set(), frozenset(), {}, [1, [2, [3, [4]]]], (1, (2,)), {1, 2}, frozenset(["a"]), {"a": {"b": {"c": [None]}}},
            {1: "int key", (1, 2): "tuple key", None: "none key"}, [True, 1, 1.0, "1"], {"k": (1, 2), "s": {3}}]
    # the same container object reached twice (acyclic sharing): shared rows, the empty-tuple singleton, a shared dict
    row, shared_t, shared_d = [1, "r"], (1, 2), {"k": None}
    out += [[row, row], {"a": row, "b": [row]}, [shared_t, shared_t], [(), ()], [[], []], {"x": shared_d, "y": {"z": shared_d}},
            (shared_t, [shared_t, {"t": shared_t}])]
    for _ in range(60 if tier == "quick" else 1500):
        def gen(d):
            r = rng.random()
            if d <= 0 or r < 0.4:
                return rng.choice(PRIMS)
            if r < 0.6:
                return [gen(d - 1) for _ in range(rng.randint(0, 3))]
            if r < 0.7:
                return tuple(gen(d - 1) for _ in range(rng.randint(0, 3)))
            if r < 0.8:
                return {rng.choice(["a", "b", "c", 1]): gen(d - 1) for _ in range(rng.randint(0, 3))}
            return frozenset(rng.choice([1, "a", None, 2.5]) for _ in range(rng.randint(0, 3)))
        out.append(gen(4))
    return out


def run(tier="quick", seed=0, pid=None):
    import copy
    import logging
    logging.disable(logging.CRITICAL)
    import jsonrpclib.jsonclass as JC
    import jsonrpclib.config as C
    rng = random.Random(seed)
    m = make_classes()
    failures, n = [], 0

    def fail(prop, clause, inp, obs):
        failures.append({"name": "jsonrpclib.jsonclass/bounded[%s]" % clause, "input": inp, "observed": obs, "property": prop})

    # C15: plain data round trip, type preservation, purity
    for x in plain_values(rng, tier):
        n += 1
        before = copy.deepcopy(x)
        try:
            d = JC.dump(x)
        except Exception as e:     # noqa
            fail("C15", "plain_roundtrip", {"value": canon(x)}, "dump raised %s: %s" % (type(e).__name__, e))
            continue
        if canon(x) != canon(before):
            fail("C15", "argument_unchanged", {"value": canon(before)}, "dump modified its argument: %s" % canon(x))

        def only_json(v):
            if isinstance(v, dict):
                return all(only_json(w) for w in v.values())
            if isinstance(v, list):
                return all(only_json(w) for w in v)
            return v is None or isinstance(v, (bool, int, float, str))
        if not only_json(d):
            fail("C15", "only_json_types", {"value": canon(x)}, "dump returned %r" % (d,))
        dd = copy.deepcopy(d)
        try:
            back = JC.load(d)
        except Exception as e:     # noqa
            if not (isinstance(d, dict) and "__jsonclass__" in d):
                fail("C15", "plain_roundtrip", {"value": canon(x)}, "load raised %s: %s" % (type(e).__name__, e))
            continue
        if canon(d) != canon(dd):
            fail("C15", "argument_unchanged", {"value": canon(dd)}, "load modified its argument: %s" % canon(d))
        if not (isinstance(x, dict) and "__jsonclass__" in x) and not isinstance(x, (set, frozenset)) and "set" not in repr(x):
            if not same(norm(x), back):
                fail("C15", "plain_roundtrip", {"value": canon(x)}, "load(dump(x)) == %r" % (back,))
    # C15: load restores its argument when it fails
    bad = {"__jsonclass__": ["collections.OrderedDict", []], "x": {"__jsonclass__": ["no.such.module.K", []]}}
    keep = copy.deepcopy(bad)
    n += 1
    try:
        JC.load(bad)
    except Exception:      # noqa
        pass
    if bad != keep:
        fail("C15", "argument_unchanged", {"value": canon(keep)}, "failed load left %s" % canon(bad))
    # C15: load never writes into what it is given, whatever the shape of the descriptor (well formed or not)
    names = ["decimal.Decimal", MOD + ".DictBean", MOD + ".Custom", "no.such.module.K", "bad-name", "", 5, None]
    argshapes = ["<absent>", [], ["1"], {"a": 1}, [1, 2], None, "x", [[1]], {}]
    for nm in names:
        for a in argshapes:
            for extra in ({}, {"public": [1, {"k": (2,)}]}, {"nested": {"__jsonclass__": ["no.such.module.K", []]}}):
                desc = [nm] if a == "<absent>" else [nm, a]
                d = dict(extra)
                d["__jsonclass__"] = desc
                for wrap in (lambda x: x, lambda x: [x], lambda x: {"k": x}):
                    arg = wrap(d)
                    keep = copy.deepcopy(arg)
                    n += 1
                    try:
                        JC.load(arg)
                    except Exception:      # noqa
                        pass
                    if canon(arg) != canon(keep):
                        fail("C15", "argument_unchanged", {"value": canon(keep)}, "load left %s" % canon(arg))
    # C07: class shapes, at top level, nested, module-qualified and through the local class table
    shapes = ["DictBean", "SlotBean", "MangledSlotBean", "Child1", "Child2", "Child3", "SlotChild", "Custom", "CustomKw",
              "PrivParent", "PrivChildDict", "PrivChildSlots", "PrivGrandChild"]
    for name in shapes:
        cls = getattr(m, name)
        for where in ("top", "list", "dict", "field-list", "field-dict"):
            for local in (False, True):
                n += 1
                obj = cls() if name not in ("Custom", "CustomKw") else cls(3, [4, "five"])
                if name in ("Custom", "CustomKw"):
                    obj.note = {"n": [1, 2]}
                holder = m.Holder()
                value = {"top": obj, "list": [1, obj, "s"], "dict": {"k": obj}, "field-list": holder, "field-dict": holder}[where]
                if where == "field-list":
                    holder.items = [obj]
                if where == "field-dict":
                    holder.table = {"k": obj}
                cfg = C.Config()
                classes = None
                saved_mod = {}
                try:
                    if local:
                        for k in shapes + ["Holder"]:
                            c2 = getattr(m, k)
                            saved_mod[k] = c2.__module__
                            c2.__module__ = "__main__"
                            cfg.classes.add(c2)
                        classes = cfg.classes
                    try:
                        d = JC.dump(value, config=cfg)
                        json.dumps(d)
                        back = JC.load(d, classes)
                    except Exception as e:    # noqa
                        fail("C07", "bean_roundtrip", {"class": name, "position": where, "local_class_table": local},
                             "%s: %s" % (type(e).__name__, e))
                        continue
                    if not (back == value or same(norm(value), back)):
                        fail("C07", "bean_roundtrip", {"class": name, "position": where, "local_class_table": local},
                             "load(dump(obj)) differs: %r" % (d,))
                finally:
                    for k, v in saved_mod.items():
                        getattr(m, k).__module__ = v
    # a module-qualified descriptor is resolved through its module even when the local class table holds an unrelated
    # class under the same short name
    n += 1

    class Impostor(object):
        pass
    cfgx = C.Config()
    cfgx.classes.add(Impostor, "DictBean")
    cfgx.classes.add(Impostor, "Decimal")
    for v in (m.DictBean(), decimal.Decimal("2.5"), [m.DictBean()]):
        try:
            back = JC.load(JC.dump(v, config=cfgx), cfgx.classes)
            got_t = type(back[0] if isinstance(back, list) else back)
            want_t = type(v[0] if isinstance(v, list) else v)
            if got_t is not want_t:
                fail("C07", "bean_roundtrip", {"value": label(v), "local_class_table": "unrelated class under the same short name"},
                     "rebuilt as %s" % got_t.__name__)
        except Exception as e:     # noqa
            fail("C07", "bean_roundtrip", {"value": label(v), "local_class_table": "unrelated class under the same short name"},
                 "%s: %s" % (type(e).__name__, e))
    # two class tables (a client's and a server's, say) bind the same bare name to different classes, and one table is
    # re-bound after a first load: every load resolves the name in the table it is given, at that moment
    def _local(tag):
        class Point(object):
            def __init__(self):
                self.x, self.tag = 1, tag
        Point.__module__ = "__main__"           # dumped under its bare name, as a locally defined class is
        return Point
    PA, PB, PC = _local("a"), _local("b"), _local("c")
    ta, tb = C.Config(), C.Config()
    ta.classes.add(PA, "Point")
    tb.classes.add(PB, "Point")
    steps = [(PA, ta, "first table"), (PB, tb, "second table, same name"), (PA, ta, "first table again")]
    for cls, cfg_, what in steps + [(PC, ta, "first table after re-registration")]:
        n += 1
        if cls is PC:
            ta.classes.add(PC, "Point")
        try:
            d = JC.dump({"k": [cls()]}, config=cfg_)
            back = JC.load(d, cfg_.classes)["k"][0]
            if type(back) is not cls or back.tag != cls().tag:
                fail("C07", "bean_roundtrip", {"class": "Point", "local_class_table": what},
                     "rebuilt as an instance of %s" % ("another class bound to that name earlier or elsewhere"
                                                       if type(back) in (PA, PB, PC) else type(back).__name__))
        except Exception as e:     # noqa
            fail("C07", "bean_roundtrip", {"class": "Point", "local_class_table": what}, "%s: %s" % (type(e).__name__, e))
    for v in (decimal.Decimal("1.50"), m.Color.RED, [decimal.Decimal("-0.1"), {"c": m.Color.BLUE}]):
        n += 1
        try:
            back = JC.load(JC.dump(v))
            if back != v:
                fail("C07", "bean_roundtrip", {"value": label(v)}, "got %r" % (back,))
        except Exception as e:     # noqa
            fail("C07", "bean_roundtrip", {"value": label(v)}, "%s: %s" % (type(e).__name__, e))
    # C20: handlers at every depth, ignore lists, configured names
    calls = []

    def h_tuple(obj, sm, ia, ign, cfg):
        calls.append(obj)
        return {"tuple!": list(obj)}

    def h_bean(obj, sm, ia, ign, cfg):
        return "BEAN"
    cfg = C.Config(serialize_handlers={tuple: h_tuple, m.DictBean: h_bean})
    cases = [((1, 2), {"tuple!": [1, 2]}), ([(1,)], [{"tuple!": [1]}]), ({"k": (3,)}, {"k": {"tuple!": [3]}}),
             ({"k": [{"j": (4,)}]}, {"k": [{"j": {"tuple!": [4]}}]}), ([m.DictBean()], ["BEAN"]), ({"a": {"b": m.DictBean()}}, {"a": {"b": "BEAN"}})]
    for val, want in cases:
        n += 1
        try:
            got = JC.dump(val, config=cfg)
        except Exception as e:     # noqa
            fail("C20", "handler_at_every_depth", {"value": label(val)}, "%s: %s" % (type(e).__name__, e))
            continue
        if got != want:
            fail("C20", "handler_at_every_depth", {"value": label(val)}, "dump gave %r, expected %r" % (got, want))
    # a bean field whose value is of a type that only a handler knows (not one of the built-in supported types)
    import datetime

    class Opaque(object):
        def __init__(self, v):
            self.v = v
    Opaque.__module__ = MOD

    def h_date(obj, sm, ia, ign, cfg_):
        return {"date!": obj.isoformat()}

    def h_opaque(obj, sm, ia, ign, cfg_):
        return ["opaque!", obj.v]
    cfg3 = C.Config(serialize_handlers={datetime.date: h_date, Opaque: h_opaque})
    for where in ("field", "field-list", "field-dict", "nested-bean-list"):
        n += 1
        hb = m.Holder()
        d0, o0 = datetime.date(2020, 2, 29), Opaque(5)
        if where == "field":
            hb.items, hb.table = d0, o0
            want_items, want_table = {"date!": "2020-02-29"}, ["opaque!", 5]
        elif where == "field-list":
            hb.items, hb.table = [d0, o0], {}
            want_items, want_table = [{"date!": "2020-02-29"}, ["opaque!", 5]], {}
        elif where == "field-dict":
            hb.items, hb.table = [], {"d": d0, "o": o0}
            want_items, want_table = [], {"d": {"date!": "2020-02-29"}, "o": ["opaque!", 5]}
        else:
            inner = m.Holder()
            inner.items, inner.table = d0, o0
            hb.items, hb.table = [inner], {}
            want_items, want_table = None, {}
        try:
            got = JC.dump(hb, config=cfg3)
        except Exception as e:     # noqa
            fail("C20", "handler_at_every_depth", {"value": "Holder with handler-only typed values: " + where}, "%s: %s" % (type(e).__name__, e))
            continue
        if where == "nested-bean-list":
            inner_d = (got.get("items") or [{}])[0]
            ok = inner_d.get("items") == {"date!": "2020-02-29"} and inner_d.get("table") == ["opaque!", 5]
        else:
            ok = got.get("items") == want_items and got.get("table") == want_table
        if not ok:
            fail("C20", "handler_at_every_depth", {"value": "Holder with handler-only typed values: " + where}, "dump gave %r" % (got,))
    # handlers registered in a Config after it has already been used apply from then on, and removed ones stop applying
    n += 1
    cfg4 = C.Config()
    hb = m.Holder()
    hb.items, hb.table = datetime.date(2021, 1, 2), {}
    first = JC.dump(hb, config=cfg4)
    cfg4.serialize_handlers[datetime.date] = h_date
    second = JC.dump(hb, config=cfg4)
    del cfg4.serialize_handlers[datetime.date]
    third = JC.dump(hb, config=cfg4)
    if "items" in first or second.get("items") != {"date!": "2021-01-02"} or "items" in third:
        fail("C20", "handler_at_every_depth", {"value": "handler registered after the first dump with the same Config"},
             "dumps gave %r / %r / %r" % (first.get("items"), second.get("items"), third.get("items")))
    h = m.Holder()
    h.items = [(9,)]
    h.table = {"t": (8,)}
    n += 1
    got = JC.dump(h, config=cfg)
    if got.get("items") != [{"tuple!": [9]}] or got.get("table") != {"t": {"tuple!": [8]}}:
        fail("C20", "handler_at_every_depth", {"value": "Holder with tuples in fields"}, "dump gave %r" % (got,))
    for ignore_attr, ignore_arg in ((["public"], None), (None, ["_protected"]), (["public"], ["_protected"])):
        n += 1
        b = m.DictBean()
        if ignore_attr:
            b._ignore = ignore_attr
        got = JC.dump([b], ignore=ignore_arg)[0]
        gone = (ignore_attr or []) + (ignore_arg or [])
        if any(g in got for g in gone):
            fail("C20", "ignored_names_absent", {"ignore_attribute": ignore_attr, "ignore": ignore_arg}, "dump gave %r" % (got,))
    cfg2 = C.Config(serialize_method="to_wire", ignore_attribute="skip_these")

    class Renamed(object):
        skip_these = ["b"]

        def __init__(self):
            self.a, self.b = 1, 2
    Renamed.__module__ = MOD
    n += 1
    got = JC.dump(Renamed(), config=cfg2)
    if "b" in got or got.get("a") != 1:
        fail("C20", "configured_names", {"ignore_attribute": "skip_these"}, "dump gave %r" % (got,))

    class Wire(object):
        def to_wire(self):
            return [], {"z": 1}
    Wire.__module__ = MOD
    n += 1
    got = JC.dump(Wire(), config=cfg2)
    if got.get("z") != 1:
        fail("C20", "configured_names", {"serialize_method": "to_wire"}, "dump gave %r" % (got,))
    # the same through a copy of the configuration (what the dispatcher dumps with when it answers a 1.0 request as a 2.0
    # server) and through a copy to which a handler was added: names and handlers travel with the copy
    cfg3 = cfg2.copy()
    cfg3.serialize_handlers[complex] = lambda obj, *a, **k: {"re": obj.real}
    for cfg_ in (cfg2.copy(), cfg3):
        n += 2
        got = JC.dump([Renamed()], config=cfg_)[0]
        if "b" in got or got.get("a") != 1:
            fail("C20", "configured_names", {"ignore_attribute": "skip_these", "config": "a copy()"}, "dump gave %r" % (got,))
        got = JC.dump({"k": Wire()}, config=cfg_)["k"]
        if got.get("z") != 1:
            fail("C20", "configured_names", {"serialize_method": "to_wire", "config": "a copy()"}, "dump gave %r" % (got,))
    n += 1
    got = JC.dump([1j], config=cfg3)
    if got != [{"re": 0.0}]:
        fail("C20", "handler_at_every_depth", {"value": "[1j] with a handler added to a copy()"}, "dump gave %r" % (got,))
    n += 1
    weird = m.Holder()
    weird.items = object()
    try:
        got = JC.dump(weird)
        if "items" in got:
            fail("C20", "unsupported_fields_omitted", {}, "dump gave %r" % (got,))
    except Exception as e:     # noqa
        fail("C20", "unsupported_fields_omitted", {}, "%s: %s" % (type(e).__name__, e))
    # C08: hostile names never reach __import__
    import builtins
    imported = []
    real_import = builtins.__import__

    def spy(name, *a, **k):
        imported.append(name)
        return real_import(name, *a, **k)
    alphabet = ["a", "Z", "0", "_", ".", "-", " ", "\n", "/", "é", "\x00", ";", "("]
    names = [""] + ["".join(p) for k in (1, 2, 3) for p in itertools.product(alphabet, repeat=k)]
    names += ["os.path\n", "os.path ", "os-path.x", "decimal.Decimal\n", "collections.OrderedDict;"]
    if tier == "quick":
        rng.shuffle(names)
        names = names[:700] + ["os.path\n", "x\n", "", "a-b", "é"]
    ok_chars = set("abcdefghijklmnopqrstuvwxyzABCDEFGHIJKLMNOPQRSTUVWXYZ0123456789_.")
    builtins.__import__ = spy
    try:
        for nm in names:
            valid = nm != "" and set(nm) <= ok_chars
            if valid:
                continue
            n += 1
            del imported[:]
            try:
                JC.load({"__jsonclass__": [nm, []]})
                fail("C08", "invalid_name_rejected_before_import", {"name": nm}, "load returned")
            except JC.TranslationError:
                pass
            except Exception as e:    # noqa
                fail("C08", "invalid_name_rejected_before_import", {"name": nm}, "raised %s instead of TranslationError" % type(e).__name__)
            if imported:
                fail("C08", "invalid_name_rejected_before_import", {"name": nm}, "__import__ was called with %r" % (imported,))
    finally:
        builtins.__import__ = real_import
    total = len(failures)
    if pid is not None:
        failures = [f for f in failures if f.get("property") == pid]
    return {"kind": "real jsonclass.dump/load on generated class shapes, plain nestings, handler tables and hostile names (bounded)",
            "bound": "13 class shapes x 5 positions x {module path, local class table}; %d plain values; handler/ignore cases; "
                     "class names of length <= 3 over a 13-character alphabet (sampled in the quick tier)" % len(plain_values(random.Random(seed), tier)),
            "evaluations": n, "failures": failures[:60], "failures_total": total}
