"""C16: systematic schedules of set_callback / execute / done+result on the real FutureResult (bounded).

The real methods run in real threads under a deterministic cooperative scheduler: before every access to the shared
state of the protocol (the callback / extra attributes, the stored data / exception, every operation of the underlying
threading.Event, every lock acquisition) the running thread stops and the scheduler picks who continues.  All
schedules with at most `bound` pre-emptions are enumerated (depth-first over the decision points).  A lock held by
another thread blocks the acquirer, as in the real execution.

Checked on every schedule:
* the latest registered callback is invoked exactly once, with (result, exception, extra) of the task;
* no registration is invoked more than once (a registration replaced before completion is owed nothing: the future
  has one callback slot - set_callback *sets* the callback - so the statement's "once per registration" is read for
  registrations that are still in place when the task completes or that are made afterwards);
* an observer: once done() has answered True, result(0) returns / raises the task's outcome at once, consistently;
  before that result(0) raises OSError;
* a raising callback changes neither the stored outcome nor what execute() does afterwards.
"""
import logging
import threading


class Deadlock(Exception):
    pass


class Sched(object):
    def __init__(self, prefix, bound):
        self.prefix, self.bound = list(prefix), bound
        self.cv = threading.Condition()
        self.turn = None
        self.state = {}
        self.trace = []          # (chosen index, number of options)
        self.preemptions = 0
        self.tids = {}
        self.finished = threading.Event()
        self.error = None
        self.labels = []

    def tid(self):
        return self.tids.get(threading.current_thread())

    def _choose(self, current):
        """called with cv held; picks the next thread to run; None when nobody can"""
        runnable = sorted(t for t, s in self.state.items() if s == "waiting")
        if not runnable:
            if any(s == "blocked" for s in self.state.values()):
                self.error = "deadlock: every remaining thread waits for the lock"
            return None
        if current in runnable:
            options = [current] + [t for t in runnable if t != current]
            if self.preemptions >= self.bound:
                options = [current]
        else:
            options = runnable
        k = len(self.trace)
        idx = self.prefix[k] if k < len(self.prefix) else 0
        if idx >= len(options):
            idx = 0
        if current in runnable and idx != 0:
            self.preemptions += 1
        self.trace.append((idx, len(options)))
        return options[idx]

    def _handoff(self, me):
        nxt = self._choose(me)
        self.turn = nxt
        if nxt is None:
            self.finished.set()
        self.cv.notify_all()

    def point(self, label):
        me = self.tid()
        if me is None:
            return
        with self.cv:
            self.labels.append((me, label))
            self.state[me] = "waiting"
            self._handoff(me)
            while self.turn != me:
                self.cv.wait(10)
                if self.finished.is_set() and self.turn != me:
                    raise Deadlock()
            self.state[me] = "running"

    def block(self):
        """the running thread cannot proceed until somebody calls unblock()"""
        me = self.tid()
        with self.cv:
            self.state[me] = "blocked"
            self._handoff(me)
            while self.turn != me:
                self.cv.wait(10)
                if self.finished.is_set() and self.turn != me:
                    raise Deadlock()
            self.state[me] = "running"

    def unblock_all(self):
        with self.cv:
            for t, s in self.state.items():
                if s == "blocked":
                    self.state[t] = "waiting"

    def done(self):
        me = self.tid()
        with self.cv:
            self.state[me] = "done"
            self._handoff(me)

    def run(self, bodies):
        threads = []
        for i, body in enumerate(bodies):
            def runner(body=body):
                try:
                    self.point("start")
                    body()
                except Deadlock:
                    return
                except BaseException as e:      # noqa
                    self.error = self.error or "operation raised %s: %s" % (type(e).__name__, e)
                self.done()
            th = threading.Thread(target=runner)
            th.daemon = True
            self.tids[th] = i
            self.state[i] = "new"
            threads.append(th)
        # start them one at a time so that each reaches its "start" point: the first hand-offs only collect the threads
        with self.cv:
            self.turn = "main"
        for i, th in enumerate(threads):
            th.start()
            with self.cv:
                while self.state[i] != "waiting":
                    self.cv.wait(5)
        with self.cv:
            self.trace, self.preemptions, self.labels = [], 0, []
            self.turn = self._choose(None)
            self.cv.notify_all()
        if not self.finished.wait(20):
            self.error = self.error or "schedule did not finish within 20 s"
        for th in threads:
            th.join(1)


class _StartSched(Sched):
    """while the threads are being collected at their start points the hand-off goes back to the main thread"""

    def _handoff(self, me):
        if self.turn == "main":
            self.cv.notify_all()
            return
        Sched._handoff(self, me)


def _instrument(tp, sched):
    class LockProxy(object):
        def __init__(self):
            self.owner = None

        def __enter__(self):
            sched.point("acquire lock")
            while self.owner is not None:
                sched.block()
            self.owner = sched.tid()
            return self

        def __exit__(self, *a):
            self.owner = None
            sched.unblock_all()
            return False

        def acquire(self, *a, **k):
            self.__enter__()
            return True

        def release(self):
            self.__exit__()

    class EventProxy(object):
        def __init__(self):
            self._real = threading.Event()

        def set(self):
            sched.point("event.set")
            self._real.set()
            sched.unblock_all()

        def clear(self):
            sched.point("event.clear")
            self._real.clear()

        def is_set(self):
            sched.point("event.is_set")
            return self._real.is_set()
        isSet = is_set

        def wait(self, timeout=None):
            sched.point("event.wait")
            if timeout is None or timeout > 0:
                # a waiter that is willing to wait is parked until the event is set (the time-out of the scenarios that
                # use this is longer than the whole run)
                while not self._real.is_set():
                    sched.block()
            return self._real.wait(0)

    def shared(name, label):
        slot = "probe_" + name

        def g(self):
            sched.point("read " + label)
            return self.__dict__.get(slot)

        def s(self, v):
            sched.point("write " + label)
            self.__dict__[slot] = v
        return property(g, s)

    class ProbeEvent(tp.EventData):
        pass
    setattr(ProbeEvent, "_EventData__data", shared("data", "event data"))
    setattr(ProbeEvent, "_EventData__exception", shared("exception", "event exception"))

    class Probe(tp.FutureResult):
        pass
    setattr(Probe, "_FutureResult__callback", shared("callback", "callback"))
    setattr(Probe, "_FutureResult__extra", shared("extra", "extra"))

    def make():
        fut = Probe(logging.getLogger("verif.c16"))
        ev = ProbeEvent()
        ev.__dict__["_EventData__event"] = EventProxy()
        fut._done_event = ev
        if "_FutureResult__lock" in fut.__dict__:
            fut.__dict__["_FutureResult__lock"] = LockProxy()
        return fut
    return make


SCENARIOS = ("register||execute", "register,register||execute", "execute||observe", "execute||blocked result()",
             "register(raising cb)||execute", "register||execute||observe")


def _one(tp, scenario, task_raises, prefix, bound):
    sched = _StartSched(prefix, bound)
    make = _instrument(tp, sched)
    fut = make()
    marker, err = object(), RuntimeError("task failed")
    calls, observed, after = [], [], []

    def cb1(result, exception, extra):
        calls.append(("cb1", result, exception, extra))

    def cb2(result, exception, extra):
        calls.append(("cb2", result, exception, extra))

    def cb_raising(result, exception, extra):
        calls.append(("cb1", result, exception, extra))
        raise ValueError("callback failed")

    def task():
        if task_raises:
            raise err
        return marker

    def op_execute():
        try:
            fut.execute(task, None, None)
            after.append("returned")
        except RuntimeError as e:
            after.append("raised" if e is err else "raised another exception")

    def op_register():
        fut.set_callback(cb1, "x1")

    def op_register_twice():
        fut.set_callback(cb1, "x1")
        fut.set_callback(cb2, "x2")

    def op_register_raising():
        fut.set_callback(cb_raising, "x1")

    def op_observe():
        d = fut.done()
        try:
            r = fut.result(0)
            observed.append((d, "value", r))
        except OSError:
            observed.append((d, "timeout", None))
        except RuntimeError as e:
            observed.append((d, "raised", e))

    def op_wait_for_result():
        try:
            r = fut.result(30)
            observed.append((True, "value", r))
        except OSError:
            observed.append((True, "timeout", None))
        except RuntimeError as e:
            observed.append((True, "raised", e))

    bodies = {"register||execute": [op_register, op_execute],
              "execute||blocked result()": [op_execute, op_wait_for_result],
              "register,register||execute": [op_register_twice, op_execute],
              "execute||observe": [op_execute, op_observe],
              "register(raising cb)||execute": [op_register_raising, op_execute],
              "register||execute||observe": [op_register, op_execute, op_observe]}[scenario]
    sched.run(bodies)
    problems = []
    if sched.error:
        problems.append(sched.error)
    want = (None, err) if task_raises else (marker, None)
    latest = "cb2" if scenario.startswith("register,register") else ("cb1" if "register" in scenario else None)
    for name in ("cb1", "cb2"):
        mine = [c for c in calls if c[0] == name]
        if len(mine) > 1:
            problems.append("callback invoked %d time(s)" % len(mine))
        if name == latest and len(mine) != 1 and len(mine) <= 1:
            problems.append("callback invoked %d time(s)" % len(mine))
        for c in mine:
            if c[1] is not want[0] or c[2] is not want[1] or c[3] != {"cb1": "x1", "cb2": "x2"}[name]:
                problems.append("callback invoked with wrong arguments (result %s, exception %s, extra %r)" % (
                    "ok" if c[1] is want[0] else "wrong", "ok" if c[2] is want[1] else "wrong", c[3]))
    if after != [("raised" if task_raises else "returned")]:
        problems.append("execute %s" % (after or ["did not finish"])[0])
    for d, kind, v in observed:
        if d and kind == "timeout":
            problems.append("done() was True but result(0) timed out")
        if kind == "value" and (task_raises or v is not marker):
            problems.append("result() returned a value that is not the task's outcome")
        if kind == "raised" and (not task_raises or v is not err):
            problems.append("result() raised an exception that is not the task's outcome")
    # after everything: the future is done and keeps its outcome
    try:
        final = ("value", fut.result(0))
    except OSError:
        final = ("timeout", None)
    except RuntimeError as e:
        final = ("raised", e)
    if final != (("raised", err) if task_raises else ("value", marker)) or not fut.done():
        problems.append("stored outcome changed: result(0) afterwards gives %s" % final[0])
    return sched.trace, problems, sched.labels


def _describe(labels, limit=14):
    out, last = [], None
    for t, lab in labels:
        if lab == "start":
            continue
        if t != last:
            out.append("T%d:" % t)
            last = t
        out.append(lab)
    return " ".join(out[:limit * 3])


def run(tier="quick", seed=0):
    import jsonrpclib.threadpool as tp
    logging.disable(logging.CRITICAL)
    bound = 2 if tier == "quick" else 3
    failures, n = [], 0
    seen_fail = set()
    for scenario in SCENARIOS:
        if tier == "quick" and scenario == "register||execute||observe":
            continue
        for task_raises in (False, True):
            stack = [[]]
            cap = 4000 if tier == "quick" else 60000
            while stack and cap > 0:
                prefix = stack.pop()
                cap -= 1
                n += 1
                trace, problems, labels = _one(tp, scenario, task_raises, prefix, bound)
                for i in range(len(prefix), len(trace)):
                    for alt in range(1, trace[i][1]):
                        stack.append([c for c, _ in trace[:i]] + [alt])
                for p in problems:
                    key = (scenario, task_raises, p)
                    if key in seen_fail:
                        continue
                    seen_fail.add(key)
                    failures.append({"name": "jsonrpclib.threadpool.FutureResult/interleaving[callback_exactly_once]"
                                     if "callback" in p else "jsonrpclib.threadpool.FutureResult/interleaving[outcome_consistent]",
                                     "input": {"scenario": scenario, "task": "raises" if task_raises else "returns",
                                               "schedule": _describe(labels)},
                                     "observed": p})
    return {"kind": "all schedules with a bounded number of pre-emptions of set_callback / execute / done+result on the real "
                    "FutureResult, real threads under a deterministic scheduler (bounded)",
            "bound": "%d pre-emptions per schedule; scheduling points before every access to callback/extra/data/exception, every "
                     "threading.Event operation and every lock acquisition; scenarios %s x {task returns, task raises}" % (
                         bound, ", ".join(SCENARIOS if tier != "quick" else SCENARIOS[:-1])),
            "exhaustive_within_bound": True, "evaluations": n, "failures": failures}
