"""C01 (also C17/C18 wire clauses): the real ServerProxy against the real servers over loopback TCP (bounded).

Every value of the corpus is sent through a registered echo callable; the call must invoke it exactly once with the
value and return N(value); an attached History must have recorded exactly the texts exchanged.  The string corpus
slides a multi-byte character across the client's 1024-byte read boundary and uses lengths around it."""
import json
import logging
import random
import threading


def norm(x):
    if isinstance(x, (list, tuple)):
        return [norm(e) for e in x]
    if isinstance(x, dict):
        return {k: norm(v) for k, v in x.items()}
    return x


def same(a, b):
    if type(a) is not type(b):
        return False
    if isinstance(a, list):
        return len(a) == len(b) and all(same(x, y) for x, y in zip(a, b))
    if isinstance(a, dict):
        return set(a) == set(b) and all(same(a[k], b[k]) for k in a)
    return a == b


def corpus(rng, tier):
    vals = [None, True, False, 0, 1, -1, 2 ** 53, -(2 ** 53), 0.5, -1e300, 1e-300, "", "x", "é", "\U0001F600", "a\u0000b", "line\nfeed",
            [], {}, [[]], [{}], {"": ""}, {"k": None}, [None, False, 0, "", [], {}], (1, (2, (3,))), {"a": {"b": {"c": [1, 2, {"d": "é"}]}}},
            "\\", "\"", "</script>", "  "]
    # strings placing a 2-, 3- and 4-byte character at every offset around the 1024-byte chunk boundary of the reply
    for ch in ("é", "中", "\U0001F600"):
        for pad in range(1000, 1030) if tier == "thorough" else range(1008, 1016):
            vals.append("a" * pad + ch + "tail")
    for n in (1023, 1024, 1025, 2047, 2048, 4096):
        vals.append("é" * (n // 2))
    for _ in range(20 if tier == "quick" else 400):
        def gen(d):
            r = rng.random()
            if d <= 0 or r < 0.45:
                return rng.choice([None, True, False, 0, -5, 3.25, "", "s", "é中", rng.randint(-2 ** 53, 2 ** 53)])
            if r < 0.75:
                return [gen(d - 1) for _ in range(rng.randint(0, 4))]
            return {rng.choice(["a", "b", "", "é", "key with space"]): gen(d - 1) for _ in range(rng.randint(0, 4))}
        vals.append(gen(4))
    return vals


class Service(object):
    def __init__(self, log):
        self._log = log
        self.sub = self

    def echo(self, *args, **kwargs):
        self._log.append(("echo", args, kwargs))
        if kwargs:
            return kwargs
        return args[0] if len(args) == 1 else list(args)


def run(tier="quick", seed=0):
    logging.disable(logging.CRITICAL)
    import jsonrpclib
    import jsonrpclib.config as C
    import jsonrpclib.history as H
    from jsonrpclib.SimpleJSONRPCServer import SimpleJSONRPCServer, PooledJSONRPCServer
    rng = random.Random(seed)
    vals = corpus(rng, tier)
    failures, n = [], 0

    def fail(clause, inp, obs):
        failures.append({"name": "jsonrpclib.jsonrpc.ServerProxy/bounded[%s]" % clause, "input": inp, "observed": obs})

    import os
    import shutil
    import socket
    import tempfile
    sockdir = tempfile.mkdtemp(prefix="verif_c01_")          # Unix-socket listeners live here; removed at the end
    combos = [(SimpleJSONRPCServer, 2.0, "tcp"), (SimpleJSONRPCServer, 1.0, "tcp"), (PooledJSONRPCServer, 2.0, "tcp"),
              (PooledJSONRPCServer, 1.0, "tcp")]
    if hasattr(socket, "AF_UNIX"):
        combos += [(SimpleJSONRPCServer, 2.0, "unix"), (PooledJSONRPCServer, 1.0, "unix")]
    for server_cls, version, family in combos:
        if True:
            log = []
            cfg = C.Config(version=version)
            if family == "unix":
                sockpath = os.path.join(sockdir, "s%d.sock" % n)
                srv = server_cls(sockpath, logRequests=False, config=cfg, address_family=socket.AF_UNIX)
                url = "unix+http://./%s" % sockpath
            else:
                srv = server_cls(("127.0.0.1", 0), logRequests=False, config=cfg)
                url = "http://127.0.0.1:%d" % srv.server_address[1]
            svc = Service(log)
            srv.register_function(svc.echo, "echo")
            srv.register_function(svc.echo, "ns.écho")
            srv.register_instance(svc, allow_dotted_names=True)
            th = threading.Thread(target=srv.serve_forever, kwargs={"poll_interval": 0.05})
            th.daemon = True
            th.start()
            try:
                hist = H.History()
                proxy = jsonrpclib.ServerProxy(url, config=cfg, history=hist)
                step = 1 if (server_cls is SimpleJSONRPCServer and version == 2.0 and family == "tcp") else 3
                for idx, v in enumerate(vals[::step]):
                    for style in ("positional", "keyword", "dotted"):
                        n += 1
                        del log[:]
                        h0 = (len(hist.requests), len(hist.responses))
                        desc = {"value": repr(v)[:80] + ("...(%d chars)" % len(v) if isinstance(v, str) and len(v) > 80 else ""),
                                "style": style, "version": version, "server": server_cls.__name__, "transport": family}
                        try:
                            if style == "positional":
                                got, want_args, want_kw, want = proxy.echo(v), (norm(v),), {}, norm(v)
                            elif style == "keyword":
                                got, want_args, want_kw, want = proxy.echo(a=v, b=[v]), (), {"a": norm(v), "b": [norm(v)]}, {"a": norm(v), "b": [norm(v)]}
                            else:
                                got, want_args, want_kw, want = proxy.sub.sub.echo(v, 1), (norm(v), 1), {}, [norm(v), 1]
                        except Exception as e:     # noqa
                            fail("call_returns_value", desc, "raised %s: %s" % (type(e).__name__, str(e)[:120]))
                            continue
                        if not same(got, want):
                            fail("call_returns_value", desc, "returned %r" % (got,) if len(repr(got)) < 200 else "returned a different value")
                        if len(log) != 1:
                            fail("invoked_exactly_once", desc, "callable invoked %d time(s)" % len(log))
                        elif not (same(norm(log[0][1]), list(want_args)) and same(norm(log[0][2]), want_kw)):
                            fail("invoked_with_the_arguments", desc, "invoked with %r %r" % (log[0][1], log[0][2]))
                        if (len(hist.requests), len(hist.responses)) != (h0[0] + 1, h0[1] + 1):
                            fail("history_records_the_exchange", desc, "history grew by %d request(s), %d response(s)" % (
                                len(hist.requests) - h0[0], len(hist.responses) - h0[1]))
                        else:
                            try:
                                rq, rs = json.loads(hist.request), json.loads(hist.response)
                                if rq.get("method") not in ("echo", "sub.sub.echo") or not same(rs.get("result"), want):
                                    fail("history_records_the_exchange", desc, "history texts differ from the exchange")
                            except Exception as e:     # noqa
                                fail("history_records_the_exchange", desc, "history text is not JSON: %s" % e)
                # batches
                for k in (1, 2, 5):
                    n += 1
                    del log[:]
                    batch = jsonrpclib.MultiCall(proxy)
                    items = [vals[(7 * k + j) % len(vals)] for j in range(k)]
                    for j, v in enumerate(items):
                        if j % 2:
                            batch.echo(x=v)
                        else:
                            batch.echo(v)
                    try:
                        res = list(batch())
                    except Exception as e:     # noqa
                        fail("batch_results_in_order", {"batch_size": k, "version": version, "server": server_cls.__name__},
                             "raised %s: %s" % (type(e).__name__, str(e)[:120]))
                        continue
                    want = [({"x": norm(v)} if j % 2 else norm(v)) for j, v in enumerate(items)]
                    if not same(res, want) or len(log) != k:
                        fail("batch_results_in_order", {"batch_size": k, "version": version, "server": server_cls.__name__},
                             "results %s; %d invocation(s)" % ("differ" if not same(res, want) else "equal", len(log)))
                # a batch mixing calls and notifications: one result per call, in order; every job runs exactly once
                n += 1
                del log[:]
                batch = jsonrpclib.MultiCall(proxy)
                batch.echo("first")
                batch._notify.echo("silent")
                batch.echo(second=2)
                batch._notify.echo(3)
                batch.echo("last")
                try:
                    res = list(batch())
                    import time as _t
                    deadline = _t.time() + 3
                    while len(log) < 5 and _t.time() < deadline:
                        _t.sleep(0.01)
                    ran = sorted(repr((a, sorted(k.items()))) for _, a, k in log)
                    want_ran = sorted(repr((a, sorted(k.items()))) for a, k in ((("first",), {}), (("silent",), {}), ((), {"second": 2}), ((3,), {}), (("last",), {})))
                    if not same(res, ["first", {"second": 2}, "last"]) or ran != want_ran:
                        fail("batch_results_in_order", {"batch": "call, notification, call, notification, call", "version": version,
                                                        "server": server_cls.__name__}, "results %r; executed %d job(s)" % (res, len(log)))
                    # the same MultiCall object used again: only the jobs recorded since the last execution travel
                    n += 1
                    del log[:]
                    batch.echo("again")
                    res2 = list(batch())
                    deadline = _t.time() + 0.3
                    while _t.time() < deadline and len(log) < 2:
                        _t.sleep(0.01)
                    if not same(res2, ["again"]) or [(a, k) for _, a, k in log] != [(("again",), {})]:
                        fail("batch_results_in_order", {"batch": "a second execution of the MultiCall that sent call, notification, "
                                                                 "call, notification, call", "version": version,
                                                        "server": server_cls.__name__},
                             "results %r; executed %r" % (res2, [(a, k) for _, a, k in log]))
                except Exception as e:     # noqa
                    fail("batch_results_in_order", {"batch": "call, notification, call, notification, call", "version": version,
                                                    "server": server_cls.__name__}, "raised %s: %s" % (type(e).__name__, str(e)[:120]))
                # a single notification: no result, executed once
                n += 1
                del log[:]
                try:
                    r0 = proxy._notify.echo("note")
                    import time as _t
                    deadline = _t.time() + 3
                    while len(log) < 1 and _t.time() < deadline:
                        _t.sleep(0.01)
                    if r0 is not None or len(log) != 1 or log[0][1] != ("note",):
                        fail("notification_runs_once_without_result", {"version": version, "server": server_cls.__name__},
                             "returned %r; executed %d time(s)" % (r0, len(log)))
                except Exception as e:     # noqa
                    fail("notification_runs_once_without_result", {"version": version, "server": server_cls.__name__},
                         "raised %s: %s" % (type(e).__name__, str(e)[:120]))
                n += 1
                try:
                    if getattr(proxy, "ns.écho")("ü") != "ü":
                        fail("call_returns_value", {"method": "ns.écho"}, "wrong value")
                except Exception as e:     # noqa
                    fail("call_returns_value", {"method": "ns.écho"}, "raised %s: %s" % (type(e).__name__, e))
                try:
                    proxy("close")()
                except Exception:     # noqa
                    pass
            finally:
                srv.shutdown()
                srv.server_close()
                th.join(5)
    # History keeps every text, in order, however many there are
    n += 1
    hh = H.History()
    for k in range(2500):
        hh.add_request("rq%d" % k)
        hh.add_response("rs%d" % k)
    if hh.requests != ["rq%d" % k for k in range(2500)] or hh.responses != ["rs%d" % k for k in range(2500)] or \
            hh.request != "rq2499" or hh.response != "rs2499":
        fail("history_records_the_exchange", {"exchanges": 2500}, "History holds %d requests and %d responses, first %r" % (
            len(hh.requests), len(hh.responses), hh.requests[:1]))
    shutil.rmtree(sockdir, ignore_errors=True)
    return {"kind": "real ServerProxy <-> real plain and pooled servers over loopback TCP and Unix sockets on a value corpus (bounded)",
            "bound": "%d values x {positional, keyword, dotted} on SimpleJSONRPCServer/2.0, every third value on the other three "
                     "server/version pairs; batches of 1, 2, 5" % len(vals),
            "evaluations": n, "failures": failures[:60], "failures_total": len(failures)}
