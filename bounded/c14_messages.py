"""C14: the real dump / dumps / loads / Fault on an enumerated argument space, against the statement written as plain
Python (bounded).  Every combination of params kind, method kind, id, version, flags and configuration below is tried."""
import itertools
import json
import logging


def run(tier="quick", seed=0):
    logging.disable(logging.CRITICAL)
    import jsonrpclib.jsonrpc as J
    import jsonrpclib.config as C
    failures, n = [], 0

    def fail(clause, inp, obs):
        failures.append({"name": "jsonrpclib.jsonrpc.dumps/bounded[%s]" % clause, "input": inp, "observed": obs})
    fault = J.Fault(-32001, "msg", rpcid="fid")
    paramss = [("list", [1, "a"]), ("empty-list", []), ("tuple", (1, 2)), ("empty-tuple", ()), ("dict", {"k": 1}), ("empty-dict", {}),
               ("none", None), ("str", "abc"), ("int", 5), ("zero", 0), ("float", 1.5), ("bool", True), ("set", {1}), ("fault", fault)]
    methods = [("name", "m"), ("dotted", "a.b"), ("unicode", "é"), ("none", None), ("int", 5), ("empty", "")]
    ids = [("absent", None), ("str", "x"), ("zero", 0), ("int", 7), ("float", 0.0), ("float2", 2.5), ("empty", ""), ("false", False)]
    versions = [None, 1.0, 2.0, "1.0", "2.0"]
    flags = [(None, None), (True, None), (None, True)]
    cfgs = [("default-2.0", C.Config(version=2.0)), ("custom-1.0", C.Config(version=1.0))]
    seen_ids = set()
    for (pk, params), (mk, method), (ik, rid), version, (resp, notify), (ck, cfg) in itertools.product(
            paramss, methods, ids, versions, flags, cfgs):
        n += 1
        desc = {"params": pk, "method": mk, "rpcid": ik, "version": version, "methodresponse": resp, "notify": notify, "config": ck}
        v = float(version) if version is not None else float(cfg.version)
        is_fault = pk == "fault"
        container = pk in ("list", "empty-list", "tuple", "empty-tuple", "dict", "empty-dict", "fault") or (pk == "none" and not (mk in ("name", "dotted", "unicode", "empty") and resp))
        # which calls must be refused (statement, last sentence)
        method_is_str = mk in ("name", "dotted", "unicode", "empty")
        must_raise = False
        if not resp and not is_fault and not method_is_str:
            must_raise = True                      # non-string method for a request
        if method_is_str and not is_fault and pk not in ("list", "empty-list", "tuple", "empty-tuple", "dict", "empty-dict") and \
                not (pk == "none"):
            must_raise = True                      # non-container params with a method
        if resp and not is_fault and rid is None:
            must_raise = True                      # response without id
        try:
            text = J.dumps(params, method, methodresponse=resp, rpcid=rid, version=version, notify=notify, config=cfg)
        except (TypeError, ValueError):
            if not must_raise and not (resp and not is_fault and ik in ("empty", "false", "zero", "float") and False):
                # refusals outside the listed combinations are tolerated only for params kinds JSON cannot carry
                if pk not in ("set",) and not (resp and rid is None):
                    fail("only_invalid_combinations_are_refused", desc, "raised although the combination is valid")
            continue
        except Exception as e:      # noqa
            fail("invalid_combinations_raise_typeerror_or_valueerror", desc, "raised %s: %s" % (type(e).__name__, e))
            continue
        if must_raise:
            fail("invalid_combinations_raise_typeerror_or_valueerror", desc, "emitted %s" % text[:120])
            continue
        try:
            msg = json.loads(text)
        except ValueError:
            fail("message_is_json", desc, "emitted %r" % text[:120])
            continue
        keys = set(msg)
        if is_fault:
            want = {"error", "id"} | ({"jsonrpc"} if v >= 2 else {"result"})
            if keys != want or msg["error"].get("code") != -32001 or msg["error"].get("message") != "msg" or "data" in msg["error"]:
                fail("error_members", desc, "emitted %s" % text[:160])
            continue
        if resp:
            want = {"result", "id"} | ({"jsonrpc"} if v >= 2 else {"error"})
            if keys != want or msg["id"] != rid or type(msg["id"]) is not type(rid):
                fail("response_members", desc, "emitted %s" % text[:160])
            continue
        nonempty = pk in ("list", "tuple", "dict")
        want = {"method"}
        if v >= 2:
            want.add("jsonrpc")
            if nonempty:
                want.add("params")
            if not notify:
                want.add("id")
        else:
            want |= {"params", "id"}
        if keys != want:
            fail("request_members", desc, "members %s, expected %s" % (sorted(keys), sorted(want)))
            continue
        if v >= 2 and msg["jsonrpc"] != "2.0":
            fail("request_members", desc, "jsonrpc member %r" % (msg["jsonrpc"],))
        if msg["method"] != method:
            fail("request_members", desc, "method %r" % (msg["method"],))
        if "params" in msg:
            want_params = list(params) if isinstance(params, tuple) else params
            if (not params and msg["params"] not in ([], {})) or (params and msg["params"] != want_params):
                fail("request_members", desc, "params %r" % (msg["params"],))
        if notify:
            if v < 2 and msg["id"] is not None:
                fail("notification_members", desc, "1.0 notification with id %r" % (msg["id"],))
        else:
            supplied = (isinstance(rid, str) and rid != "") or (isinstance(rid, (int, float)) and not isinstance(rid, bool))
            if supplied:
                if msg["id"] != rid or type(msg["id"]) is not type(rid):
                    fail("supplied_id_used_verbatim", desc, "id %r" % (msg["id"],))
            else:
                if not isinstance(msg["id"], str) or not msg["id"] or msg["id"] in seen_ids:
                    fail("fresh_unique_id_generated", desc, "id %r" % (msg["id"],))
                seen_ids.add(msg["id"])
        # loads(dumps(x)) is the same structure
        try:
            back = J.loads(text, cfg)
            if back != msg:
                fail("loads_of_dumps", desc, "loads gave %r" % (back,))
        except Exception as e:      # noqa
            fail("loads_of_dumps", desc, "loads raised %s" % type(e).__name__)
    n += 1
    if J.loads("") is not None:
        fail("loads_of_empty_text_is_none", {}, "loads('') gave %r" % (J.loads(""),))
    for data in (None, 0, 0.0, False, "", [], {}, "d", [1], {"k": None}):
        for version in (1.0, 2.0):
            n += 1
            f = J.Fault(-5, "m", rpcid=3, data=data, config=C.Config(version=version))
            for how, msg in (("dump", f.dump()), ("response", json.loads(f.response())), ("dumps", json.loads(J.dumps(f, rpcid=3, version=version)))):
                err = msg.get("error") or {}
                ok = err.get("code") == -5 and err.get("message") == "m" and (("data" in err and err["data"] == data) if data is not None else "data" not in err)
                if not ok or msg.get("id") != 3:
                    fail("error_carries_code_message_and_data", {"data": repr(data), "version": version, "through": how}, "emitted %r" % (msg,))
    return {"kind": "real dumps/loads/Fault on the enumerated argument space of the statement (bounded)",
            "bound": "%d params kinds x %d method kinds x %d ids x %d versions x %d flag pairs x 2 configurations; 10 Fault data values x 2 versions"
                     % (len(paramss), len(methods), len(ids), len(versions), len(flags)),
            "evaluations": n, "failures": failures[:60], "failures_total": len(failures)}
