"""The proofs take jsonrpclib.jdumps / jloads to be the standard library's json.dumps / json.loads (trusted contracts in
contracts/base.py).  This stand-in checks that assumption on the tree under test: the wrappers selected by
jsonrpclib.jsonlib must produce exactly the standard text / value on a corpus, and fail where the standard ones fail."""
import json
import random


def corpus(rng, tier):
    vals = [None, True, False, 0, -1, 2 ** 53, -(2 ** 64), 0.0, -0.0, 1.5, 1e300, 5e-324, "", "a", "é", "中文", "\U0001F600", " ", "\x00",
            "\\", "\"", "</", [], {}, [[]], [{}], {"": None}, {"a": [1, {"b": [None, True, 1.5, "é"]}]}, [1, "2", 3.0, None, False],
            {"z": 1, "a": 2, "é": 3}, {"k": "v" * 2000}, ["x"] * 50]
    for _ in range(40 if tier == "quick" else 2000):
        def gen(d):
            r = rng.random()
            if d <= 0 or r < 0.4:
                return rng.choice([None, True, False, rng.randint(-10 ** 12, 10 ** 12), rng.random() * 1e6, "", "s", "é中", "\U0001F600x"])
            if r < 0.7:
                return [gen(d - 1) for _ in range(rng.randint(0, 4))]
            return {rng.choice(["a", "b", "é", "", "long key"]): gen(d - 1) for _ in range(rng.randint(0, 4))}
        vals.append(gen(4))
    return vals


def run(tier="quick", seed=0):
    import jsonrpclib
    rng = random.Random(seed)
    failures, n = [], 0

    def fail(clause, inp, obs):
        failures.append({"name": "jsonrpclib.jsonlib/bounded[%s]" % clause, "input": inp, "observed": obs})
    for v in corpus(rng, tier):
        n += 1
        want = json.dumps(v)
        try:
            got = jsonrpclib.jdumps(v)
        except Exception as e:     # noqa
            fail("jdumps_is_json_dumps", {"value": repr(v)[:120]}, "raised %s: %s" % (type(e).__name__, e))
            continue
        if got != want:
            fail("jdumps_is_json_dumps", {"value": repr(v)[:120]}, "jdumps gave %r, json.dumps gives %r" % (got[:120], want[:120]))
        for text in (want, json.dumps(v, ensure_ascii=False), json.dumps(v, indent=1)):
            n += 1
            try:
                back = jsonrpclib.jloads(text)
            except Exception as e:     # noqa
                fail("jloads_is_json_loads", {"text": text[:120]}, "raised %s: %s" % (type(e).__name__, e))
                continue
            if json.dumps(back, sort_keys=True) != json.dumps(json.loads(text), sort_keys=True) or type(back) is not type(json.loads(text)):
                fail("jloads_is_json_loads", {"text": text[:120]}, "jloads gave %r" % (back,))
    for bad in (object(), {1, 2}, b"bytes", {"k": object()}, [complex(1, 2)]):
        n += 1
        try:
            jsonrpclib.jdumps(bad)
            fail("jdumps_rejects_what_json_rejects", {"value": repr(bad)[:80]}, "jdumps returned a text")
        except TypeError:
            pass
        except Exception as e:     # noqa
            fail("jdumps_rejects_what_json_rejects", {"value": repr(bad)[:80]}, "raised %s instead of TypeError" % type(e).__name__)
    for text in ("", "{", "[1,", "nul", "{'a': 1}", "[1 2]", "\x00", "{\"a\":}", "é", "{\"a\": \"x\x01y\"}", "[\"tab\there\"]", "[\"nl\nhere\"]",
                 "[1,]", "{\"a\": 1,}", "[01]", "[.5]", "[+1]", "// c\n1", "[1] x"):
        n += 1
        try:
            jsonrpclib.jloads(text)
            fail("jloads_rejects_what_json_rejects", {"text": text}, "jloads returned a value")
        except ValueError:
            pass
        except Exception as e:     # noqa
            fail("jloads_rejects_what_json_rejects", {"text": text}, "raised %s instead of ValueError" % type(e).__name__)
    return {"kind": "the JSON backend wrappers against the standard library's json on a value corpus: validates the trusted "
                    "json.dumps/json.loads contracts of the proofs on this tree (bounded)",
            "bound": "%d values (scalars, escapes, non-BMP text, nesting, key order, long strings), their compact / non-ASCII / "
                     "indented texts, 5 unserialisable values, 19 malformed texts (raw control characters in strings, trailing commas, bad numbers, comments)" % len(corpus(random.Random(seed), tier)),
            "evaluations": n, "failures": failures[:40], "failures_total": len(failures)}
