"""C16: every one-preemption interleaving of set_callback and execute on the real FutureResult.

The real methods run in one thread; at each synchronisation-relevant step of one operation (every access to the
callback/extra attributes and every operation on the done event) the other operation is run to completion, which is
exactly a schedule with one pre-emption.  The callback must be invoked exactly once with (result, exception, extra)."""
import logging


def _make(tp):
    class Probe(tp.FutureResult):
        """the real class with observation points on the attributes the protocol uses"""
        hook = None

        def _get_cb(self):
            Probe._point(self, "read callback")
            return self.__dict__.get("cb_store")

        def _set_cb(self, v):
            Probe._point(self, "before write callback")
            self.__dict__["cb_store"] = v
            Probe._point(self, "after write callback")

        def _get_ex(self):
            Probe._point(self, "read extra")
            return self.__dict__.get("ex_store")

        def _set_ex(self, v):
            self.__dict__["ex_store"] = v
            Probe._point(self, "after write extra")

        @staticmethod
        def _point(self, label):
            h = self.__dict__.get("hook_fn")
            if h is not None:
                h(label)

    setattr(Probe, "_FutureResult__callback", property(Probe._get_cb, Probe._set_cb))
    setattr(Probe, "_FutureResult__extra", property(Probe._get_ex, Probe._set_ex))

    class EventProxy(object):
        def __init__(self, real, owner):
            self._real, self._owner = real, owner

        def __getattr__(self, name):
            attr = getattr(self._real, name)
            if name in ("set", "raise_exception", "is_set", "wait"):
                def wrapped(*a, **k):
                    Probe._point(self._owner, "before event." + name)
                    r = attr(*a, **k)
                    Probe._point(self._owner, "after event." + name)
                    return r
                return wrapped
            if name in ("data", "exception"):
                Probe._point(self._owner, "read event." + name)
            return attr
    return Probe, EventProxy


def _scenario(tp, first, preempt_at, task_raises):
    """run `first` ('A' = set_callback, 'B' = execute) and pre-empt it at its preempt_at-th point by the other one.
    returns (number of points seen in `first`, calls list, label of the pre-emption point)"""
    Probe, EventProxy = _make(tp)
    fut = Probe(logging.getLogger("verif.c16"))
    fut.__dict__["cb_store"] = None
    fut.__dict__["ex_store"] = None
    fut._done_event = EventProxy(fut._done_event, fut)
    calls = []
    marker = object()
    err = RuntimeError("task failed")

    def cb(result, exception, extra):
        calls.append((result, exception, extra))

    def task():
        if task_raises:
            raise err
        return marker

    def op_a():
        fut.set_callback(cb, "extra")

    def op_b():
        try:
            fut.execute(task, None, None)
        except RuntimeError:
            pass

    state = {"n": 0, "label": None, "inside": False}

    def hook(label):
        if state["inside"]:
            return
        state["n"] += 1
        if state["n"] == preempt_at:
            state["label"] = label
            state["inside"] = True
            try:
                (op_b if first == "A" else op_a)()
            finally:
                state["inside"] = False
    fut.__dict__["hook_fn"] = hook
    (op_a if first == "A" else op_b)()
    if state["label"] is None:          # no pre-emption happened: run the other operation afterwards
        fut.__dict__["hook_fn"] = None
        (op_b if first == "A" else op_a)()
    expected = (None, err, "extra") if task_raises else (marker, None, "extra")
    return state["n"], calls, state["label"], expected


def run(tier="quick", seed=0):
    import jsonrpclib.threadpool as tp
    logging.disable(logging.CRITICAL)
    failures, n = [], 0
    for task_raises in (False, True):
        for first in ("A", "B"):
            total, _, _, _ = _scenario(tp, first, 10 ** 6, task_raises)
            for k in range(1, total + 2):
                n += 1
                _, calls, label, expected = _scenario(tp, first, k, task_raises)
                ok = len(calls) == 1 and calls[0][0] is expected[0] and calls[0][1] is expected[1] and calls[0][2] == expected[2]
                if not ok:
                    failures.append({
                        "name": "jsonrpclib.threadpool.FutureResult/interleaving[callback_exactly_once]",
                        "input": {"preempted": "set_callback" if first == "A" else "execute", "at": label or "no pre-emption",
                                  "task": "raises" if task_raises else "returns"},
                        "observed": "callback invoked %d time(s)%s" % (len(calls), "" if len(calls) != 1 else " with wrong arguments")})
    return {"kind": "one-preemption interleavings of set_callback and execute forced on the real FutureResult (bounded)",
            "bound": "every observation point (callback/extra attribute access, done-event operation) x {task returns, task raises} "
                     "x {which operation is pre-empted}; one pre-emption per schedule", "exhaustive_within_bound": True,
            "evaluations": n, "failures": failures}
